//! Regression test: compaction that drains an input segment only partially must not make
//! the moved events readable from both the input and the output segment.
//!
//! History (1 shard, flush threshold 6):
//!   segment 00000: t0 {k=1}      segment 00001: t0 {k=9}      segment 00002: t0 {k=10}, t1 {k=11}
//! A compaction round then moves one event type out of 00002 while the other one stays, so
//! 00002 remains published and still holds the files of the moved type. Row selections hide
//! the duplicate (rows are de-duplicated by event id), `COUNT` does not.
//!
//! The configuration is process-global, so every database lifetime runs in a child process:
//! the test binary re-executes itself with `REGRESS_DC_PHASE` set (see `dc_child`).

use std::collections::BTreeMap;
use std::path::{Path, PathBuf};
use std::process::Command;
use std::sync::Arc;
use std::time::{Duration, Instant};

use snel_db::command::dispatcher::dispatch_command;
use snel_db::command::parser::parse_command;
use snel_db::engine::core::compaction::handover::CompactionHandover;
use snel_db::engine::core::{CompactionWorker, SegmentIdLoader, SegmentIndex};
use snel_db::engine::schema::SchemaRegistry;
use snel_db::frontend::context::FrontendContext;
use snel_db::shared::response::JsonRenderer;

const PHASE_ENV: &str = "REGRESS_DC_PHASE";
const ROOT_ENV: &str = "REGRESS_DC_ROOT";

// ───────────────────────────── parent side ─────────────────────────────

fn write_config(
    root: &Path,
    name: &str,
    segments_per_merge: usize,
    compaction_interval: u64,
) -> PathBuf {
    let path = root.join(format!("{name}.toml"));
    let r = root.display();
    let text = format!(
        r#"
[wal]
enabled = true
fsync = false
buffered = true
buffer_size = "100KB"
dir = "{r}/wal/"
flush_each_write = true
fsync_every_n = 1024
conservative_mode = false
archive_dir = "{r}/wal/archived/"
compression_level = 3
compression_algorithm = "zstd"

[engine]
fill_factor = 2
data_dir = "{r}/cols"
index_dir = "{r}/index/"
shard_count = 1
event_per_zone = 3
compaction_interval = {compaction_interval}
sys_io_threshold = 1000000000
sys_memory_threshold_mb = "1MB"
max_inflight_passives = 8
segments_per_merge = {segments_per_merge}
compaction_max_shard_concurrency = 1

[schema]
def_dir = "{r}/schema/"

[server]
socket_path = "{r}/sneldb.sock"
log_level = "error"
output_format = "json"
tcp_addr = "127.0.0.1:0"
http_addr = "127.0.0.1:0"
ws_addr = "127.0.0.1:0"
auth_token = "t"

[playground]
enabled = false
allow_unauthenticated = true

[auth]
bypass_auth = true
rate_limit_enabled = false

[logging]
log_dir = "{r}/logs"
stdout_level = "error"
file_level = "error"

[query]
zone_index_cache_max_entries = 256
column_block_cache_max_bytes = "64MB"
zone_surf_cache_max_bytes = "10MB"

[time]
timezone = "UTC"
week_start = "Mon"
use_calendar_bucketing = true
"#
    );
    std::fs::write(&path, text).unwrap();
    path
}

/// Runs one database lifetime in a child process and returns its `RESULT key=value` lines.
fn run_phase(phase: &str, config: &Path, root: &Path) -> BTreeMap<String, String> {
    let out = Command::new(std::env::current_exe().unwrap())
        .args(["--exact", "dc_child", "--nocapture", "--test-threads", "1"])
        .env(PHASE_ENV, phase)
        .env(ROOT_ENV, root)
        .env("SNELDB_CONFIG", config)
        .output()
        .expect("spawn child phase");
    let stdout = String::from_utf8_lossy(&out.stdout).to_string();
    let stderr = String::from_utf8_lossy(&out.stderr).to_string();
    assert!(
        out.status.success(),
        "phase {phase} failed\n--- stdout\n{stdout}\n--- stderr\n{stderr}"
    );
    let results: BTreeMap<String, String> = stdout
        .lines()
        // the first one follows libtest's "test dc_child ... " on the same line
        .filter_map(|l| l.find("RESULT ").map(|at| &l[at + "RESULT ".len()..]))
        .filter_map(|l| l.split_once('='))
        .map(|(k, v)| (k.to_string(), v.to_string()))
        .collect();
    assert_eq!(
        results.get("phase").map(String::as_str),
        Some(phase),
        "phase {phase} did not run to its end\n--- stdout\n{stdout}\n--- stderr\n{stderr}"
    );
    results
}

fn expect(results: &BTreeMap<String, String>, key: &str, want: &str, what: &str) {
    let got = results.get(key).map(String::as_str).unwrap_or("<missing>");
    assert_eq!(got, want, "{what} ({key}); all results: {results:?}");
}

/// The history of the defect report: with `segments_per_merge = 2` one compaction round
/// merges t0 of 00000+00001 (both fully drained) and moves t1 out of 00002 ("forced
/// leftover"), which stays published for t0. The round runs in a lifetime of its own, so
/// the reading lifetime has to derive what 00002 serves from `segments.idx`.
#[test]
fn count_is_not_doubled_after_partial_drain_and_restart() {
    let tmp = tempfile::tempdir().unwrap();
    let root = tmp.path();
    let cfg = write_config(root, "k2", 2, 3600);

    let r = run_phase("ingest", &cfg, root);
    expect(&r, "t0_count", "3", "before compaction");
    expect(&r, "t1_count", "1", "before compaction");

    let r = run_phase("compact_offline", &cfg, root);
    expect(
        &r,
        "index",
        "00002:t0|L1:t0|L1:t1",
        "segments.idx after one round",
    );
    expect(
        &r,
        "dirs",
        "00002,10000,10001",
        "drained inputs are reclaimed",
    );
    expect(
        &r,
        "partially_drained_keeps_files",
        "true",
        "published segments are immutable",
    );

    let r = run_phase("read_after_restart", &cfg, root);
    expect(&r, "t1_rows", "11", "QUERY t1");
    expect(
        &r,
        "t1_count",
        "1",
        "QUERY t1 COUNT counts the moved event once",
    );
    expect(
        &r,
        "t0_rows",
        "1,9,10",
        "QUERY t0: the type left in 00002 is still read from it",
    );
    expect(
        &r,
        "t0_count",
        "3",
        "QUERY t0 COUNT: fully drained inputs are not read",
    );
    expect(&r, "t0_total", "20", "QUERY t0 TOTAL k");
    expect(&r, "t1_top", "11", "QUERY t1 ORDER BY k DESC LIMIT 1");
    // rows flushed in this lifetime are read from the new segment
    expect(
        &r,
        "t1_rows_after_flush",
        "11,12",
        "QUERY t1 after STORE + FLUSH",
    );
    expect(
        &r,
        "t1_count_after_flush",
        "2",
        "QUERY t1 COUNT after STORE + FLUSH",
    );

    // ... and once more after another restart
    let r = run_phase("read_again", &cfg, root);
    expect(&r, "t1_count", "2", "QUERY t1 COUNT after second restart");
    expect(&r, "t0_count", "3", "QUERY t0 COUNT after second restart");
    expect(&r, "t0_rows", "1,9,10", "QUERY t0 after second restart");
}

/// Same history with `segments_per_merge = 3`, compacted by the background compactor of
/// the lifetime that also reads: the round merges t0 of 00000+00001+00002, t1 stays in
/// 00002 (no further round follows: every uid is down to one segment per level). The
/// history is written by an earlier lifetime without compaction, so that the round finds
/// all three segments however slow the machine is.
#[test]
fn count_is_not_doubled_after_partial_drain_by_background_compactor() {
    let tmp = tempfile::tempdir().unwrap();
    let root = tmp.path();
    let cfg_quiet = write_config(root, "k3_quiet", 3, 3600);
    let cfg = write_config(root, "k3", 3, 1);

    let r = run_phase("ingest", &cfg_quiet, root);
    expect(&r, "t0_count", "3", "before compaction");
    expect(&r, "t1_count", "1", "before compaction");

    let r = run_phase("live", &cfg, root);
    expect(
        &r,
        "index_before",
        "00000:t0|00001:t0|00002:t0+t1",
        "segments.idx before the round",
    );
    expect(
        &r,
        "index",
        "00002:t1|L1:t0",
        "segments.idx after the round",
    );
    expect(&r, "t0_rows", "1,9,10", "QUERY t0");
    expect(
        &r,
        "t0_count",
        "3",
        "QUERY t0 COUNT counts the moved events once",
    );
    expect(&r, "t0_total", "20", "QUERY t0 TOTAL k");
    expect(&r, "t0_top2", "9,10", "QUERY t0 ORDER BY k DESC LIMIT 2");
    expect(
        &r,
        "t1_rows",
        "11",
        "QUERY t1: the type left in 00002 is still read from it",
    );
    expect(&r, "t1_count", "1", "QUERY t1 COUNT");
    expect(
        &r,
        "t0_rows_after_flush",
        "1,9,10,20",
        "QUERY t0 after STORE + FLUSH",
    );
    expect(
        &r,
        "t0_count_after_flush",
        "4",
        "QUERY t0 COUNT after STORE + FLUSH",
    );
    expect(
        &r,
        "t0_count_unflushed",
        "5",
        "QUERY t0 COUNT with one more row in the memtable",
    );

    let r = run_phase("read_again", &cfg_quiet, root);
    expect(&r, "t0_count", "5", "QUERY t0 COUNT after restart");
    expect(&r, "t0_rows", "1,9,10,20,21", "QUERY t0 after restart");
    expect(&r, "t1_count", "1", "QUERY t1 COUNT after restart");
}

// ───────────────────────────── child side ─────────────────────────────

struct Db {
    ctx: Arc<FrontendContext>,
}

impl Db {
    async fn start() -> Self {
        Self {
            ctx: FrontendContext::from_config().await,
        }
    }

    async fn run(&self, line: &str) -> String {
        let cmd = parse_command(line).unwrap_or_else(|e| panic!("parse {line:?}: {e:?}"));
        let mut out: Vec<u8> = Vec::new();
        dispatch_command(
            &cmd,
            &mut out,
            &self.ctx.shard_manager,
            &self.ctx.registry,
            self.ctx.auth_manager.as_ref(),
            Some("bypass"), // what the frontends pass with `[auth] bypass_auth = true`
            &JsonRenderer,
        )
        .await
        .unwrap_or_else(|e| panic!("dispatch {line:?}: {e}"));
        String::from_utf8_lossy(&out).to_string()
    }

    async fn ok(&self, line: &str) {
        let out = self.run(line).await;
        assert!(
            out.contains("\"status\":200") || out.contains("\"status\": 200"),
            "{line:?} -> {out}"
        );
    }

    /// The streamed answer: column names and one `Vec` of cells per row.
    async fn table(&self, line: &str) -> (Vec<String>, Vec<Vec<serde_json::Value>>) {
        let out = self.run(line).await;
        let mut columns = Vec::new();
        let mut rows = Vec::new();
        for frame in out.lines().filter(|l| !l.trim().is_empty()) {
            let v: serde_json::Value =
                serde_json::from_str(frame).unwrap_or_else(|e| panic!("{line:?}: {e}: {out}"));
            match v.get("type").and_then(|t| t.as_str()) {
                Some("schema") => {
                    columns = v["columns"]
                        .as_array()
                        .unwrap_or_else(|| panic!("{line:?}: schema frame {frame}"))
                        .iter()
                        .map(|c| c["name"].as_str().expect("column name").to_string())
                        .collect();
                }
                Some("batch") => {
                    for row in v["rows"].as_array().expect("rows") {
                        rows.push(row.as_array().expect("row").clone());
                    }
                }
                Some("end") => {}
                _ => panic!("{line:?}: unexpected answer {out}"),
            }
        }
        (columns, rows)
    }

    /// The `k` values of a selection, sorted.
    async fn ks(&self, line: &str) -> String {
        let (columns, rows) = self.table(line).await;
        let k = columns
            .iter()
            .position(|c| c == "k")
            .unwrap_or_else(|| panic!("{line:?}: no column k in {columns:?}"));
        let mut ks: Vec<i64> = rows
            .iter()
            .map(|row| {
                row[k]
                    .as_i64()
                    .unwrap_or_else(|| panic!("{line:?}: {row:?}"))
            })
            .collect();
        ks.sort();
        ks.iter()
            .map(|k| k.to_string())
            .collect::<Vec<_>>()
            .join(",")
    }

    /// The single number an ungrouped aggregation answers with.
    async fn number(&self, line: &str) -> String {
        let (columns, rows) = self.table(line).await;
        assert_eq!(rows.len(), 1, "{line:?}: {columns:?} {rows:?}");
        assert_eq!(rows[0].len(), 1, "{line:?}: {columns:?} {rows:?}");
        match &rows[0][0] {
            serde_json::Value::Number(n) => n.to_string(),
            other => panic!("{line:?}: {other:?}"),
        }
    }

    async fn report_reads(&self, suffix: &str) {
        result(&format!("t0_rows{suffix}"), &self.ks("QUERY t0").await);
        result(
            &format!("t0_count{suffix}"),
            &self.number("QUERY t0 COUNT").await,
        );
        result(&format!("t1_rows{suffix}"), &self.ks("QUERY t1").await);
        result(
            &format!("t1_count{suffix}"),
            &self.number("QUERY t1 COUNT").await,
        );
    }

    async fn shutdown(self) {
        let errors = self
            .ctx
            .shard_manager
            .flush_all(Arc::clone(&self.ctx.registry))
            .await;
        assert!(errors.is_empty(), "flush_all: {errors:?}");
        self.ctx.shard_manager.shutdown_all().await;
    }
}

fn result(key: &str, value: &str) {
    println!("RESULT {key}={value}");
}

fn shard_dir() -> PathBuf {
    PathBuf::from(std::env::var(ROOT_ENV).unwrap()).join("cols/shard-0")
}

/// `segment:type+type|segment:type`; compaction outputs are named by their level only
/// (which output id a uid gets depends on the planning order).
async fn describe_index(names: &BTreeMap<String, String>) -> String {
    let index = SegmentIndex::load(&shard_dir())
        .await
        .expect("segments.idx");
    let mut parts: Vec<String> = index
        .iter_all()
        .map(|e| {
            let mut types: Vec<String> = e
                .uids
                .iter()
                .map(|u| names.get(u).cloned().unwrap_or_else(|| u.clone()))
                .collect();
            types.sort();
            let name = match e.level() {
                0 => e.label(),
                level => format!("L{level}"),
            };
            format!("{}:{}", name, types.join("+"))
        })
        .collect();
    parts.sort();
    parts.join("|")
}

async fn uid_names(registry: &tokio::sync::RwLock<SchemaRegistry>) -> BTreeMap<String, String> {
    let registry = registry.read().await;
    ["t0", "t1"]
        .iter()
        .filter_map(|t| registry.get_uid(t).map(|uid| (uid, t.to_string())))
        .collect()
}

fn segment_dirs() -> String {
    SegmentIdLoader::new(shard_dir()).load().join(",")
}

async fn ingest_history(db: &Db) {
    db.ok(r#"DEFINE t0 FIELDS {"k":"int","s":"string"}"#).await;
    db.ok(r#"DEFINE t1 FIELDS {"k":"int","s":"string"}"#).await;
    db.ok(r#"STORE t0 FOR c0 PAYLOAD {"k":1,"s":"y"}"#).await;
    db.ok("FLUSH").await;
    db.ok(r#"STORE t0 FOR c0 PAYLOAD {"k":9,"s":"y"}"#).await;
    db.ok("FLUSH").await;
    db.ok(r#"STORE t0 FOR c0 PAYLOAD {"k":10,"s":"y"}"#).await;
    db.ok(r#"STORE t1 FOR c0 PAYLOAD {"k":11,"s":"y"}"#).await;
}

async fn phase_ingest() {
    let db = Db::start().await;
    ingest_history(&db).await;
    db.report_reads("").await;
    // the clean shutdown flushes segment 00002 holding t0 and t1
    db.shutdown().await;
}

/// One compaction round without a running shard (what the background compactor does).
async fn phase_compact_offline() {
    let dir = shard_dir();
    let registry = Arc::new(tokio::sync::RwLock::new(
        SchemaRegistry::new().expect("schema registry"),
    ));
    let names = uid_names(&registry).await;
    let live = Arc::new(std::sync::RwLock::new(
        SegmentIdLoader::new(dir.clone()).load_published(),
    ));
    let handover = Arc::new(CompactionHandover::new(
        0,
        dir.clone(),
        Arc::clone(&live),
        Arc::new(tokio::sync::Mutex::new(())),
    ));
    CompactionWorker::new(0, dir.clone(), registry, handover)
        .run()
        .await
        .expect("compaction round");
    // retired inputs are removed by a background task
    let deadline = Instant::now() + Duration::from_secs(10);
    while dir.join("00000").exists() || dir.join("00001").exists() {
        assert!(
            Instant::now() < deadline,
            "retired inputs were not reclaimed"
        );
        tokio::time::sleep(Duration::from_millis(20)).await;
    }
    result("index", &describe_index(&names).await);
    result("dirs", &segment_dirs());
    let t1_uid = names
        .iter()
        .find(|(_, t)| *t == "t1")
        .map(|(u, _)| u.clone())
        .unwrap();
    result(
        "partially_drained_keeps_files",
        &dir.join("00002")
            .join(format!("{t1_uid}.zones"))
            .exists()
            .to_string(),
    );
}

async fn phase_read_after_restart() {
    let db = Db::start().await;
    db.report_reads("").await;
    result("t0_total", &db.number("QUERY t0 TOTAL k").await);
    result("t1_top", &db.ks("QUERY t1 ORDER BY k DESC LIMIT 1").await);
    db.ok(r#"STORE t1 FOR c0 PAYLOAD {"k":12,"s":"y"}"#).await;
    db.ok("FLUSH").await;
    db.report_reads("_after_flush").await;
    db.shutdown().await;
}

async fn phase_read_again() {
    let db = Db::start().await;
    db.report_reads("").await;
    db.shutdown().await;
}

async fn phase_live() {
    let registry = tokio::sync::RwLock::new(SchemaRegistry::new().expect("schema registry"));
    let names = uid_names(&registry).await;
    result("index_before", &describe_index(&names).await);
    let db = Db::start().await;
    // wait for the background compactor's round; the retired inputs are removed after
    // the shard's segment list has been updated
    let deadline = Instant::now() + Duration::from_secs(120);
    loop {
        let index = describe_index(&names).await;
        if index.contains("L1:") && !shard_dir().join("00000").exists() {
            break;
        }
        assert!(
            Instant::now() < deadline,
            "no compaction round; index {index}"
        );
        tokio::time::sleep(Duration::from_millis(50)).await;
    }
    result("index", &describe_index(&names).await);
    db.report_reads("").await;
    result("t0_total", &db.number("QUERY t0 TOTAL k").await);
    result("t0_top2", &db.ks("QUERY t0 ORDER BY k DESC LIMIT 2").await);
    db.ok(r#"STORE t0 FOR c0 PAYLOAD {"k":20,"s":"y"}"#).await;
    db.ok("FLUSH").await;
    result("t0_rows_after_flush", &db.ks("QUERY t0").await);
    result("t0_count_after_flush", &db.number("QUERY t0 COUNT").await);
    db.ok(r#"STORE t0 FOR c0 PAYLOAD {"k":21,"s":"y"}"#).await;
    result("t0_count_unflushed", &db.number("QUERY t0 COUNT").await);
    db.shutdown().await;
}

/// Entry point of the child processes; does nothing in a normal test run.
#[test]
fn dc_child() {
    let Ok(phase) = std::env::var(PHASE_ENV) else {
        return;
    };
    let runtime = tokio::runtime::Builder::new_multi_thread()
        .worker_threads(2)
        .enable_all()
        .build()
        .unwrap();
    runtime.block_on(async {
        match phase.as_str() {
            "ingest" => phase_ingest().await,
            "compact_offline" => phase_compact_offline().await,
            "read_after_restart" => phase_read_after_restart().await,
            "read_again" => phase_read_again().await,
            "live" => phase_live().await,
            other => panic!("unknown phase {other}"),
        }
    });
    result("phase", &phase);
}
