"""History builder: accumulates lifetimes and steps (with driver-side metadata the node ignores)
and renders command text."""
import json, copy

BASE_WALL_MS = 1_700_000_000_000


def jdump(v):
    # the command tokenizer does not accept a '+' in a float exponent (1e+300); 1e300 is the same JSON number
    return _dump(v)


def _dump(v):
    if isinstance(v, dict):
        return "{" + ",".join(json.dumps(str(k), ensure_ascii=False) + ":" + _dump(x) for k, x in v.items()) + "}"
    if isinstance(v, (list, tuple)):
        return "[" + ",".join(_dump(x) for x in v) + "]"
    if isinstance(v, float):
        return json.dumps(v).replace("e+", "e")
    return json.dumps(v, ensure_ascii=False)


def ctx_text(ctx):
    import re
    if re.fullmatch(r"[A-Za-z_][A-Za-z0-9_-]*", ctx):
        return ctx
    return '"' + ctx + '"'


def schema_text(schema):
    parts = []
    for f, spec in schema.items():
        parts.append(f'"{f}":{jdump(spec)}')
    return "{" + ",".join(parts) + "}"


class H:
    def __init__(self, seed, profile, config, uid_salt=None):
        self.plan = {"seed": seed, "profile": profile, "uid_salt": uid_salt or f"s{seed}",
                     "config": config, "lifetimes": []}
        self.next_k = 1
        self.types = {}
        self.ctxs = []
        self.nshards = (config or {}).get("shard_count", 1)
        self.read_arrivals = 0   # read.mem.start arrivals so far in the current lifetime

    # ---- lifetimes
    def life(self, wall_ms=None, tick_ms=1000, end="shutdown", **extra):
        n = len(self.plan["lifetimes"])
        if wall_ms is None:
            # never let the default clock run backwards across a restart
            wall_ms = BASE_WALL_MS if n == 0 else self.wall_now() + 1_000_000
        lf = {"wall_clock_ms": wall_ms,
              "tick_ms": tick_ms, "steps": [], "holds": [], "io_faults": [], "end": end}
        lf.update(extra)
        self.plan["lifetimes"].append(lf)
        self.read_arrivals = 0
        return lf

    @property
    def cur(self):
        return self.plan["lifetimes"][-1]

    def wall_now(self):
        """Wall clock (ms) after the last step of the current lifetime, as the node will compute it."""
        lf = self.cur
        w = lf["wall_clock_ms"]
        for st in lf["steps"]:
            w += lf.get("tick_ms", 0)
            w += st.get("wall_advance_ms", 0)
            if "wall_set_ms" in st:
                w = st["wall_set_ms"]
            if st.get("op") == "advance" and st.get("with_wall", True):
                w += st.get("ms", 0)
        return w

    def end(self, how):
        self.cur["end"] = how

    def step(self, st):
        self.cur["steps"].append(st)
        return len(self.cur["steps"]) - 1

    def cmd(self, text, meta, conn=0, **extra):
        st = {"op": "cmd", "conn": conn, "text": text, "meta": meta}
        st.update(extra)
        return self.step(st)

    # ---- commands
    def define(self, t, schema, conn=0):
        self.types[t] = schema
        return self.cmd(f"DEFINE {t} FIELDS {schema_text(schema)}", {"kind": "define", "type": t, "schema": schema}, conn)

    def store(self, t, ctx, payload, conn=0, k=None, valid=True, stored=None, vclass=None, **extra):
        if k is None:
            k = self.next_k
            self.next_k += 1
        if ctx not in self.ctxs and valid and ctx.strip():
            self.ctxs.append(ctx)
        meta = {"kind": "store", "k": k, "type": t, "ctx": ctx, "payload": payload, "valid": valid}
        if stored is not None:
            meta["stored"] = stored
        if vclass is not None:
            meta["vclass"] = vclass
        return self.cmd(f"STORE {t} FOR {ctx_text(ctx)} PAYLOAD {jdump(payload)}", meta, conn, **extra)

    def new_k(self):
        k = self.next_k
        self.next_k += 1
        return k

    def flush(self, conn=0, **extra):
        return self.cmd("FLUSH", {"kind": "flush"}, conn, **extra)

    def advance(self, ms, **extra):
        st = {"op": "advance", "ms": ms, "meta": {"kind": "advance"}}
        st.update(extra)
        return self.step(st)

    def compact(self):
        iv = self.plan["config"].get("compaction_interval", 3600)
        return self.advance((iv + 1) * 1000, settle=4)

    def hold(self, hid, gate, key="", nth=1, crash=False, armed=True):
        self.cur["holds"].append({"id": hid, "gate": gate, "key": key, "nth": nth, "crash": crash, "armed": armed})

    def arm(self, hid):
        return self.step({"op": "arm", "id": hid, "meta": {"kind": "arm"}})

    def hold_next(self, gate, key=""):
        """Park the next arrival at `gate` (armed by a step, so no arrival counting is needed)."""
        hid = f"hn{len(self.cur['holds'])}"
        self.hold(hid, gate, key=key, nth=1, armed=False)
        self.arm(hid)
        return hid

    def release(self, hid="*"):
        return self.step({"op": "release", "id": hid, "meta": {"kind": "release"}})

    def await_(self, step):
        return self.step({"op": "await", "step": step, "meta": {"kind": "await"}})

    def snapshot(self):
        return self.step({"op": "fs_snapshot", "meta": {"kind": "fs"}})

    def barrier(self, **extra):
        st = {"op": "barrier", "meta": {"kind": "barrier"}}
        st.update(extra)
        return self.step(st)

    # ---- reads
    def select(self, t, conn=0, tag=None, **extra):
        self.read_arrivals += self.nshards
        return self.cmd(f"QUERY {t}", {"kind": "select", "type": t, "tag": tag}, conn, **extra)

    def count(self, t, conn=0, tag=None, **extra):
        self.read_arrivals += self.nshards
        return self.cmd(f"QUERY {t} COUNT", {"kind": "count", "type": t, "tag": tag}, conn, **extra)

    def replay(self, ctx, t=None, conn=0, tag=None, since=None, **extra):
        text = f"REPLAY {t + ' ' if t else ''}FOR {ctx_text(ctx)}" + (f' SINCE "{since}"' if since is not None else "")
        self.read_arrivals += 1
        return self.cmd(text, {"kind": "replay", "ctx": ctx, "type": t, "tag": tag, "since": since}, conn, **extra)

    def read_all(self, tag=None, replay=True, count=True, types=None, ctxs=None):
        """The standard checkpoint: selection + COUNT per type, REPLAY per context."""
        self.step({"op": "barrier", "meta": {"kind": "checkpoint", "tag": tag}})
        for t in (types if types is not None else list(self.types)):
            self.select(t, tag=tag)
            if count:
                self.count(t, tag=tag)
        if replay:
            for c in (ctxs if ctxs is not None else list(self.ctxs)):
                self.replay(c, tag=tag)
                if len(self.types) > 1:
                    for t in self.types:
                        self.replay(c, t, tag=tag)

    def done(self):
        return self.plan

    def query(self, q, kind="query", conn=0, tag=None, fkey=None, feat=None, **extra):
        """Generic read described by a query dict (see qmodel.query_text)."""
        from .qmodel import query_text
        self.read_arrivals += 1 if q.get("ctx") is not None else self.nshards
        if fkey is None:
            fq = {k: q.get(k) for k in ("type", "ctx", "since", "using", "where")}
            fkey = jdump(fq)
        return self.cmd(query_text(q), {"kind": kind, "q": q, "tag": tag, "fkey": fkey, "feat": feat}, conn, **extra)
