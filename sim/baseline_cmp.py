#!/usr/bin/env python3
"""Compare a nextest junit.xml with BASELINE.json's stable_pass list. usage: baseline_cmp.py <junit.xml>"""
import json, sys, xml.etree.ElementTree as ET
b = json.load(open("/root/.vp/BASELINE.json"))
stable = set(b["stable_pass"])
root = ET.parse(sys.argv[1]).getroot()
passed, failed = set(), set()
for tc in root.iter("testcase"):
    tid = (tc.get("classname") or "") + "::" + (tc.get("name") or "")
    if tc.find("failure") is not None or tc.find("error") is not None or tc.find("flakyFailure") is not None or tc.find("rerunFailure") is not None:
        failed.add(tid)
    elif tc.find("skipped") is None:
        passed.add(tid)
passed -= failed
missing = sorted(stable - passed)
print(f"stable_pass={len(stable)} passed_now={len(passed)} failed_now={len(failed)} stable_now_failing_or_missing={len(missing)}")
for m in missing[:40]:
    print("  REGRESSION:", m, "(failed)" if m in failed else "(missing)")
sys.exit(1 if missing else 0)
