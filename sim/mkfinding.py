#!/usr/bin/env python3
"""Produce a minimised reproduction plan for a known finding: python3 -m sim.mkfinding <PROP> <KF-id> [seed]"""
import sys, json, os
from . import engine, runner
from .profiles import PROFILES


def main():
    prop, kid = sys.argv[1], sys.argv[2]
    seed = int(sys.argv[3]) if len(sys.argv) > 3 else 20260925
    prof = PROFILES[prop]
    known = [k for k in engine.load_known() if k["id"] == kid]
    assert known, "no such entry"
    opts = dict(getattr(prof, "opts", {}))

    def hits(plan):
        r = engine.execute((plan, dict(opts, **(plan.get("opts") or {}))))
        if r["harness"]:
            return []
        return [v for v in r["violations"] if v["clause"] in prof.clauses and prof.relevant(v) and engine.match_known(known, prop, v)]
    best = None
    jobs = [(p, dict(opts, want_io=[p["enumerate_life"]] if "enumerate_life" in p else None)) for p in prof.gen(seed, "quick")]
    cands = []
    for (plan, o), res in engine.run_jobs(jobs):
        if res["harness"]:
            continue
        if any(v["clause"] in prof.clauses and prof.relevant(v) and engine.match_known(known, prop, v) for v in res["violations"]):
            cands.append(plan)
        elif hasattr(prof, "variants") and len(cands) == 0:
            for vp in list(prof.variants(plan, res, seed, "quick"))[:40]:
                if hits(vp):
                    cands.append(vp)
                    break
        if len(cands) >= 3:
            break
    assert cands, "finding not reproduced by the quick batch"
    cands.sort(key=lambda p: sum(len(l["steps"]) for l in p["lifetimes"]))
    minimal = engine.shrink(cands[0], lambda c: bool(hits(c)), budget_s=90)
    v = hits(minimal)[0]
    os.makedirs(os.path.join(runner.VERIF, "findings"), exist_ok=True)
    for k in ("id", "root"):
        minimal.pop(k, None)
    minimal["expect"] = {"property": prop, "clause": v["clause"], "detail": v["detail"], "known_finding": kid}
    path = os.path.join(runner.VERIF, "findings", kid + ".json")
    json.dump(minimal, open(path, "w"), indent=1)
    print(path, "steps:", [len(l["steps"]) for l in minimal["lifetimes"]], v["clause"], v["detail"][:200])


main()
