#!/usr/bin/env python3
"""Regenerate MANIFEST.json from the registered profiles (keeps it valid at all times)."""
import json, os, subprocess, sys
sys.path.insert(0, os.path.dirname(os.path.dirname(os.path.abspath(__file__))))
from sim.profiles import PROFILES, NOT_APPLICABLE

VERIF = os.path.dirname(os.path.dirname(os.path.abspath(__file__)))

def hook_commits():
    out = subprocess.run(["git", "-C", "/repo", "log", "--format=%H %s"], stdout=subprocess.PIPE).stdout.decode()
    return [l.split()[0] for l in out.splitlines() if " sim-hooks:" in l]

def main():
    checks = []
    for pid in sorted(PROFILES):
        p = PROFILES[pid]
        checks.append({
            "property_id": pid,
            "quick_cmd": f"./check {pid} --tier quick",
            "thorough_cmd": f"./check {pid} --tier thorough",
            "evidence_file": f"/verif/evidence/{pid}.json",
            "replay_cmd_template": f"./check {pid} --replay {{path}}",
            "engine": "simnode+simdrive",
            "level_claimed": {"category": p.level, "text": p.level_text, "design_ref": p.design_ref},
            "level_note": p.level_note,
            "technique": p.technique,
        })
    m = {
        "version": 1,
        "setup_cmd": "cd /verif/simnode && CARGO_NET_OFFLINE=true cargo build --quiet",
        "hooks": {
            "guard": "cargo feature `sim-hooks` of snel_db (off by default)",
            "enable": "simnode/Cargo.toml depends on snel_db { path = \"/repo\", features = [\"sim-hooks\"] }; every check runs `cargo build` in /verif/simnode first, which rebuilds from /repo's working tree",
            "baseline_off_cmd": "cd /repo && cargo nextest run --workspace --no-fail-fast --tool-config-file pb:/w/lib/nextest.toml --profile pb --test-threads 8 --offline || cargo test --workspace --no-fail-fast --offline",
            "source_commits": hook_commits(),
            "add_only": True,
        },
        "engines": [{
            "name": "simnode+simdrive",
            "path": "/verif/simnode (Rust node: one process lifetime per invocation, libc seams, paused tokio clock, gates) + /verif/sim (Python driver: plan generation, reference model, clause-split oracles, crash-point enumeration, shrinking, evidence)",
            "serves_properties": sorted(PROFILES),
            "kind_free_text": "deterministic simulation with fault injection: seeded plan generation, one plan = one exactly repeatable execution, crash/errno/short-write faults at numbered I/O events, schedule faults via hold rules at cooperative gates, simulated wall clock and timers",
        }],
        "checks": checks,
        "notes": "Exit codes: 0 held (KNOWN-FINDING lines possible), 1 VIOLATION, 2 harness error. VERIF_SEED selects the batch of plans; VERIF_WORKERS the parallelism (default 16). Replay files are plans: ./check <ID> --replay <file>.",
        "not_applicable": [{"property_id": k, "reason": v} for k, v in sorted(NOT_APPLICABLE.items())],
    }
    with open(os.path.join(VERIF, "MANIFEST.json"), "w") as f:
        json.dump(m, f, indent=1)
    print("MANIFEST.json written:", len(checks), "checks,", len(NOT_APPLICABLE), "not applicable")

main()
