"""C19 oracle: decided from the I/O trace (every unlink of a WAL log, every operation on the archive path,
with fault verdicts) and from the archive recovery round trip."""
import json, re
from collections import defaultdict

WAL = re.compile(r"^wal/(shard-\d+)/wal-(\d+)\.log$")
ARCH = re.compile(r"^wal/archived/(shard-\d+)/wal-(\d+)-.*\.wal\.zst$")


def check(plan, results):
    viol = []
    stats = defaultdict(int)

    def v(clause, li, detail, **kw):
        d = {"clause": clause, "life": li, "step": kw.pop("step", -1), "detail": detail, "text": None, "after_restart": li > 0,
             "after_crash": False, "parked": [], "tag": None, "feat": kw.pop("feat", None)}
        d.update(kw)
        viol.append(d)

    wal_content = defaultdict(bytearray)     # (shard, log id) -> bytes appended (as captured by the seam)
    deleted = []                             # (life, shard, log id, bytes)
    for li, (events, code, err) in enumerate(results):
        # a cleanup pass = the log lines between gate flush.released and flush.pruned of one flush
        in_pass = None
        archived_ok = set()
        arch_state = {}
        failed = False
        pass_unlinks = []    # unlinks of the current pass (a failure LATER in the same pass condemns them as well)
        cur_step = -1
        for e in events:
            t = e.get("t")
            if t == "issue":
                cur_step = e["step"]
            if t == "gate":
                if e.get("name") == "flush.released":
                    in_pass = e.get("key")
                    archived_ok, arch_state, failed = set(), {}, False
                    pass_unlinks = []
                elif e.get("name") == "flush.pruned":
                    in_pass = None
                continue
            if t == "archive":
                _recover_check(plan, e, deleted, v, li, stats)
                continue
            if t != "io":
                continue
            path, op = e["path"], e["op"]
            faulted = bool(e.get("errno")) or ("short" in e and e.get("short", 0) == 0)
            m = WAL.match(path)
            if m:
                key = (m.group(1), int(m.group(2)))
                if op == "write" and not e.get("errno"):
                    n = e.get("short", e.get("n", 0))
                    data = e.get("data")
                    raw = data.encode("utf-8") if data is not None else (bytes.fromhex(e["hex"]) if "hex" in e else b"?" * n)
                    wal_content[key] += raw[:n]
                elif op == "unlink" and not e.get("errno"):
                    stats["wal_unlinks"] += 1
                    if in_pass is None:
                        v("unlink-without-archive", li, f"{path}: WAL log unlinked outside a cleanup pass", step=cur_step)
                    else:
                        if failed:
                            v("unlink-after-failed-archive", li, f"{path}: unlinked although an archive operation failed in this pass", step=cur_step)
                        else:
                            pass_unlinks.append((path, cur_step))
                        if key not in archived_ok:
                            v("unlink-without-archive", li, f"{path}: unlinked but no complete archive of log {key[1]} was written in this pass (archived: {sorted(archived_ok)})", step=cur_step)
                    deleted.append((li, key[0], key[1], bytes(wal_content.pop(key, b""))))
                continue
            if path.startswith("wal/archived"):
                if e.get("fault"):
                    stats["archive_faults_fired"] += 1
                if e.get("errno") and op != "mkdir":
                    # (create_dir_all tolerates any mkdir error when the directory exists; a directory that is
                    # really missing shows up as a failing or absent open of the archive file)
                    failed = True
                    if in_pass is not None:
                        for upath, ustep in pass_unlinks:
                            v("unlink-after-failed-archive", li, f"{upath}: unlinked in a clean-up pass in which archiving a later file ({path}) failed", step=ustep)
                        pass_unlinks = []
                ma = ARCH.match(path)
                if ma:
                    key = (ma.group(1), int(ma.group(2)))
                    stt = arch_state.setdefault(key, {"opened": False, "bad": False, "synced": False, "written": 0})
                    if e.get("errno"):
                        stt["bad"] = True
                    elif op == "open":
                        stt.update(opened=True, written=0, synced=False)
                    elif op == "write":
                        stt["written"] += e.get("short", e.get("n", 0))
                    elif op == "fsync":
                        stt["synced"] = True
                        if stt["opened"] and not stt["bad"] and stt["written"] > 0:
                            archived_ok.add(key)
    return viol, dict(stats)


def _entries_of(raw: bytes):
    out = []
    for line in raw.split(b"\n"):
        if not line.strip():
            continue
        try:
            out.append(json.loads(line.decode("utf-8")))
        except Exception:
            pass     # torn / invalid line: not an entry
    return out


def _recover_check(plan, e, deleted, v, li, stats):
    stats["archive_recoveries"] += 1
    if e.get("errors"):
        # a partial archive left behind by a failed attempt is skipped by recover_all; it is only a problem
        # if the log it belongs to was deleted (then its entries are missing below)
        stats["unreadable_archives_skipped"] += len(e["errors"])
    got = e.get("entries") or []
    step = e.get("step", -1)
    try:
        shard = "shard-%d" % plan["lifetimes"][li]["steps"][step]["shard"]
    except Exception:
        return
    norm = lambda x: json.dumps(x, sort_keys=True)
    got_n = [norm(x) for x in got]
    pos = 0
    for (dl, sh, lid, raw) in sorted((d for d in deleted if d[1] == shard), key=lambda d: (d[0], d[2])):
        want = [norm(x) for x in _entries_of(raw)]
        stats["deleted_logs_checked"] += 1
        stats["deleted_entries_checked"] += len(want)
        # the entries of each deleted log must appear, in order, in the recovered sequence
        i = pos
        for w in want:
            try:
                j = got_n.index(w, i)
            except ValueError:
                v("archive-lossy", li, f"{sh}/wal-{lid:05d}.log was deleted (lifetime {dl}) but its entry {w[:160]} is not recoverable from the archives (in order)", step=step)
                break
            i = j + 1
