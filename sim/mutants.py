#!/usr/bin/env python3
"""Sensitivity matrix: apply every seeded change under /verif/seeded/<id>/patch.diff to /repo (never committed
there), rebuild the node, run the quick check of the property it targets (and optionally others), record what was
reported in seeded/<id>/result.json, and undo the change straight afterwards.

usage: python3 -m sim.mutants [--only C05-1,C01-2] [--seed N] [--tier quick] [--also C01,C11]
The repo working tree must be clean; it is restored with `git checkout -- .` after every patch, also on error."""
import sys, os, json, subprocess, re, time, argparse

ROOT = "/verif"
REPO = "/repo"


def sh(cmd, **kw):
    return subprocess.run(cmd, shell=True, stdout=subprocess.PIPE, stderr=subprocess.STDOUT, **kw)


# mutated nodes are built into their own target directory and used through SIMNODE_BIN, so the regular binary
# (and any exploration that is running with it) never sees a seeded change
MUT_TARGET = "/verif/simnode/target-mut"
MUT_BIN = MUT_TARGET + "/debug/simnode"


def build():
    r = sh(f"cd /verif/simnode && CARGO_NET_OFFLINE=true CARGO_TARGET_DIR={MUT_TARGET} cargo build --quiet")
    return r.returncode == 0, r.stdout.decode(errors="replace")[-2000:]


def run_check(prop, tier, seed):
    t0 = time.time()
    r = sh(f"cd {ROOT} && SIMNODE_BIN={MUT_BIN} ./check {prop} --tier {tier} --no-build --no-evidence --seed {seed}")
    out = r.stdout.decode(errors="replace")
    clauses = re.findall(r"clause=(\S+) occurrences=(\d+)", out)
    viol = [l for l in out.splitlines() if l.startswith("VIOLATION")]
    summary = [l for l in out.splitlines() if l.startswith(f"{prop} {tier}")]
    return {"property": prop, "tier": tier, "seed": seed, "exit": r.returncode,
            "violation_lines": len(viol), "clauses": {c: int(n) for c, n in clauses},
            "summary": summary[-1] if summary else out[-300:], "wall_s": round(time.time() - t0, 1)}


def main():
    ap = argparse.ArgumentParser()
    ap.add_argument("--only", default="")
    ap.add_argument("--seed", type=int, default=int(os.environ.get("VERIF_SEED", "20260925")))
    ap.add_argument("--tier", default="quick")
    ap.add_argument("--also", default="")
    ap.add_argument("--dir", default="seeded", help="seeded (sub-agent changes) or reverts (reverse patches of the fix: commits)")
    a = ap.parse_args()
    if sh(f"git -C {REPO} diff --quiet").returncode != 0:
        print("repo working tree not clean"); return 2
    ids = sorted(d for d in os.listdir(f"{ROOT}/{a.dir}") if os.path.exists(f"{ROOT}/{a.dir}/{d}/patch.diff"))
    if a.only:
        ids = [i for i in ids if i in a.only.split(",")]
    rows = []
    try:
        for mid in ids:
            d = f"{ROOT}/{a.dir}/{mid}"
            prop = mid.split("-")[0]
            ap_r = sh(f"git -C {REPO} apply {d}/patch.diff")
            if ap_r.returncode != 0:
                # later repairs touched the same lines: fall back to a 3-way merge of the change
                sh(f"git -C {REPO} reset -q --hard HEAD")
                ap_r = sh(f"git -C {REPO} apply --3way {d}/patch.diff")
                if ap_r.returncode != 0 or sh(f"git -C {REPO} diff --quiet --diff-filter=U").returncode != 0:
                    ap_r.returncode = 1
            if ap_r.returncode != 0:
                res = {"id": mid, "applies": False, "note": ap_r.stdout.decode()[-400:]}
                sh(f"git -C {REPO} reset -q --hard HEAD")
            else:
                ok, blog = build()
                if not ok:
                    res = {"id": mid, "applies": True, "builds": False, "note": blog}
                else:
                    checks = [run_check(prop, a.tier, a.seed)]
                    for other in [p for p in a.also.split(",") if p and p != prop]:
                        checks.append(run_check(other, a.tier, a.seed))
                    res = {"id": mid, "applies": True, "builds": True, "checks": checks,
                           "detected": checks[0]["exit"] == 1 and checks[0]["violation_lines"] > 0}
                sh(f"git -C {REPO} reset -q --hard HEAD")
            res["repo_head"] = sh(f"git -C {REPO} rev-parse --short HEAD").stdout.decode().strip()
            json.dump(res, open(f"{d}/result.json", "w"), indent=1)
            rows.append(res)
            c0 = (res.get("checks") or [{}])[0]
            print(mid, "detected" if res.get("detected") else "MISSED" if res.get("builds") else "n/a",
                  c0.get("exit"), c0.get("clauses"), flush=True)
    finally:
        sh(f"git -C {REPO} reset -q --hard HEAD")
    mpath = f"{ROOT}/{a.dir}/MATRIX.json"
    prev = {r["id"]: r for r in (json.load(open(mpath)) if os.path.exists(mpath) else [])}
    prev.update({r["id"]: r for r in rows})
    json.dump([prev[k] for k in sorted(prev)], open(mpath, "w"), indent=1)
    return 0


if __name__ == "__main__":
    sys.exit(main())
