#!/usr/bin/env python3
"""Find a witness for a change the default batch misses and store it in the regression corpus.

usage: python3 -m sim.mkcorpus <dir> <id> [--seeds 1,2,3,...] [--tier quick|thorough] [--prop Cxx]
Applies <dir>/<id>/patch.diff to /repo (never committed), builds the node into simnode/target-mut, runs the property's
check (without the corpus) for one seed after the other until it reports a violation, copies the minimised replay files
to /verif/corpus/<PROP>/<id>-<n>.json and undoes the change. The corpus plans are then executed by every run of the
property on the unchanged tree as well, where they must hold."""
import sys, os, re, json, shutil, argparse
from .mutants import sh, build, MUT_BIN, REPO, ROOT


def main():
    ap = argparse.ArgumentParser()
    ap.add_argument("dir"); ap.add_argument("id")
    ap.add_argument("--seeds", default="1,2,3,4,5,6,7,8,101,102,103,104,105,106")
    ap.add_argument("--tier", default="quick")
    ap.add_argument("--prop", default=None)
    a = ap.parse_args()
    prop = a.prop or a.id.split("-")[0]
    d = f"{ROOT}/{a.dir}/{a.id}"
    if sh(f"git -C {REPO} diff --quiet").returncode != 0:
        print("repo working tree not clean"); return 2
    if sh(f"git -C {REPO} apply {d}/patch.diff").returncode != 0:
        print("patch does not apply"); return 2
    try:
        ok, log = build()
        if not ok:
            print("build failed", log[-500:]); return 2
        for seed in a.seeds.split(","):
            r = sh(f"cd {ROOT} && SIMNODE_BIN={MUT_BIN} ./check {prop} --tier {a.tier} --no-build --no-evidence --no-corpus --seed {seed}")
            out = r.stdout.decode(errors="replace")
            reps = re.findall(r"VIOLATION property=\S+ replay=(\S+)", out)
            print(f"seed {seed}: exit={r.returncode} replays={len(reps)}", flush=True)
            if r.returncode == 1 and reps:
                os.makedirs(f"{ROOT}/corpus/{prop}", exist_ok=True)
                for n, rp in enumerate(reps):
                    src = rp if os.path.isabs(rp) else f"{ROOT}/{rp}"
                    plan = json.load(open(src))
                    plan["corpus_origin"] = {"change": f"{a.dir}/{a.id}", "seed": int(seed), "tier": a.tier, "expect": plan.get("expect")}
                    json.dump(plan, open(f"{ROOT}/corpus/{prop}/{a.id}-{n}.json", "w"))
                    print("  stored", f"corpus/{prop}/{a.id}-{n}.json", (plan.get("expect") or {}).get("clause"))
                return 0
        print("no witness found")
        return 1
    finally:
        sh(f"git -C {REPO} checkout -- .")


if __name__ == "__main__":
    sys.exit(main())
