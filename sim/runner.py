"""Run simulation plans: prepare the data root, write the per-run config, spawn one
simnode process per lifetime, parse the event logs."""
import json, os, shutil, subprocess, hashlib, time

VERIF = os.path.dirname(os.path.dirname(os.path.abspath(__file__)))
# SIMNODE_BIN: run a side copy of the node (long explorations that must not see a later rebuild)
SIMNODE = os.environ.get("SIMNODE_BIN") or os.path.join(VERIF, "simnode", "target", "debug", "simnode")
SHM = "/dev/shm/snelsim" if os.path.isdir("/dev/shm") else os.path.join(VERIF, ".scratch")

DEFAULT_CFG = {
    "shard_count": 1, "fill_factor": 1, "event_per_zone": 3, "segments_per_merge": 2,
    "max_inflight_passives": 8, "compaction_interval": 3600,
    "wal": {"enabled": True, "fsync": False, "buffered": False, "buffer_size": 8192,
            "flush_each_write": True, "fsync_every_n": 1, "conservative_mode": False},
    "auth": {"bypass_auth": True},
    "streaming_batch_size": 1000,
    "timezone": "UTC", "week_start": "Mon",
}

def merged_cfg(cfg):
    out = json.loads(json.dumps(DEFAULT_CFG))
    for k, v in (cfg or {}).items():
        if isinstance(v, dict) and isinstance(out.get(k), dict):
            out[k].update(v)
        else:
            out[k] = v
    return out

def b(x): return "true" if x else "false"

def config_toml(root, cfg):
    c = merged_cfg(cfg)
    w, a = c["wal"], c["auth"]
    auth_extra = ""
    if a.get("initial_admin_user"):
        auth_extra += f'initial_admin_user = "{a["initial_admin_user"]}"\n'
    if a.get("initial_admin_key"):
        auth_extra += f'initial_admin_key = "{a["initial_admin_key"]}"\n'
    if "session_token_expiry_seconds" in a:
        auth_extra += f'session_token_expiry_seconds = {a["session_token_expiry_seconds"]}\n'
    return f"""[wal]
enabled = {b(w["enabled"])}
fsync = {b(w["fsync"])}
buffered = {b(w["buffered"])}
buffer_size = {w["buffer_size"]}
dir = "{root}/wal/"
flush_each_write = {b(w["flush_each_write"])}
fsync_every_n = {w["fsync_every_n"]}
conservative_mode = {b(w["conservative_mode"])}
archive_dir = "{root}/wal/archived/"
compression_level = 3
compression_algorithm = "zstd"

[engine]
fill_factor = {c["fill_factor"]}
data_dir = "{root}/cols"
index_dir = "{root}/index/"
shard_count = {c["shard_count"]}
event_per_zone = {c["event_per_zone"]}
compaction_interval = {c["compaction_interval"]}
sys_io_threshold = 1000000000
sys_memory_threshold_mb = 0
max_inflight_passives = {c["max_inflight_passives"]}
segments_per_merge = {c["segments_per_merge"]}
compaction_max_shard_concurrency = 1
system_info_refresh_interval = 1000000000

[schema]
def_dir = "{root}/schema/"

[server]
socket_path = "{root}/sneldb.sock"
log_level = "error"
output_format = "json"
tcp_addr = "127.0.0.1:7171"
http_addr = "127.0.0.1:8085"
ws_addr = "127.0.0.1:8086"
auth_token = "simtoken"

[playground]
enabled = false
allow_unauthenticated = false

[auth]
bypass_auth = {b(a["bypass_auth"])}
rate_limit_enabled = false
{auth_extra}
[logging]
log_dir = "{root}/logs"
stdout_level = "error"
file_level = "error"

[query]
zone_index_cache_max_entries = 256
column_block_cache_max_bytes = "64MB"
zone_surf_cache_max_bytes = "10MB"
streaming_batch_size = {c["streaming_batch_size"]}

[time]
timezone = "{c["timezone"]}"
week_start = "{c["week_start"]}"
use_calendar_bucketing = true
"""

def plan_id(plan):
    p = {k: v for k, v in plan.items() if k not in ("root", "id")}
    return hashlib.sha256(json.dumps(p, sort_keys=True).encode()).hexdigest()[:16]

class Harness(Exception):
    pass

def parse_log(path):
    out = []
    if not os.path.exists(path):
        return out
    with open(path, "rb") as f:
        for line in f:
            line = line.strip()
            if not line:
                continue
            try:
                out.append(json.loads(line))
            except Exception:
                out.append({"t": "garbled", "raw": line.decode("utf-8", "replace")})
    return out

def prepare_root(plan, tag=""):
    """Create an empty data root for the plan; returns the plan with 'root' set."""
    pid = plan.get("id") or plan_id(plan)
    root = os.path.join(SHM, pid + tag)
    shutil.rmtree(root, ignore_errors=True)
    os.makedirs(root)
    plan = dict(plan); plan["id"] = pid; plan["root"] = root
    with open(os.path.join(root, "config.toml"), "w") as f:
        f.write(config_toml(root, plan.get("config")))
    return plan

def run_lifetime(plan, li, keep_log=None):
    """Run lifetime `li` of the plan in its root; returns (events, exit code)."""
    root = plan["root"]
    simdir = os.path.join(root, "_sim")
    os.makedirs(simdir, exist_ok=True)
    ppath = os.path.join(simdir, "plan.json")
    with open(ppath, "w") as f:
        json.dump(plan, f)
    lpath = os.path.join(simdir, f"log-{li}.jsonl")
    if os.path.exists(lpath):
        os.unlink(lpath)
    env = dict(os.environ)
    env.pop("RUST_LOG", None)
    try:
        r = subprocess.run([SIMNODE, ppath, str(li), lpath], env=env, stdout=subprocess.PIPE,
                           stderr=subprocess.PIPE, timeout=plan.get("wall_timeout_s", 120))
        code, err = r.returncode, r.stderr.decode("utf-8", "replace")
    except subprocess.TimeoutExpired as e:
        code, err = -999, "wall timeout"
    ev = parse_log(lpath)
    if keep_log:
        shutil.copy(lpath, keep_log)
    return ev, code, err

def run_plan(plan, tag="", cleanup=True, upto=None):
    """Run all lifetimes of a plan from an empty root. Returns list of (events, code, stderr)."""
    plan = prepare_root(plan, tag)
    res = []
    try:
        for li in range(len(plan["lifetimes"]) if upto is None else upto):
            res.append(run_lifetime(plan, li))
    finally:
        if cleanup:
            shutil.rmtree(plan["root"], ignore_errors=True)
    return plan, res
