#!/bin/sh
# usage: confirm_mutant.sh <PROP> <n>  -- confirm the demo in /tmp/mut-<PROP> fails with the patch and passes without; save to /verif/seeded/<PROP>-<n>
P=$1; N=$2; W=/tmp/mut-$P; lower=$(echo $P | tr 'A-Z' 'a-z')
cd $W || exit 2
demo=$(ls tests/demo_*.rs 2>/dev/null | head -1); name=$(basename $demo .rs)
CARGO_TARGET_DIR=$W/target cargo test --offline --test $name > /tmp/confirm-$P-with.log 2>&1; with=$?
git diff -- src > /tmp/confirm-$P.patch; git checkout -- src
CARGO_TARGET_DIR=$W/target cargo test --offline --test $name > /tmp/confirm-$P-without.log 2>&1; without=$?
git apply /tmp/confirm-$P.patch
echo "$P: demo with patch exit=$with (expect != 0); without patch exit=$without (expect 0)"
grep "test result" /tmp/confirm-$P-with.log | tail -1; grep "test result" /tmp/confirm-$P-without.log | tail -1
base=$(python3 /tmp/baseline_cmp.py $W/target/nextest/pb/junit.xml 2>/dev/null | head -1); echo "agent's suite run: $base"
if [ $with -ne 0 ] && [ $without -eq 0 ]; then
  d=/verif/seeded/$P-$N; mkdir -p $d; cp OUT/patch.diff $d/; cp $demo $d/; cp OUT/meta.json $d/meta.agent.json
  echo "{\"confirmed_demo_with_patch_exit\": $with, \"confirmed_demo_without_patch_exit\": $without, \"suite_comparison\": \"$base\"}" > $d/confirm.json
  echo saved $d
fi
