#!/usr/bin/env python3
"""Run a plan/replay file and print every step with its response and the oracle's verdicts."""
import sys, json, os
sys.path.insert(0, os.path.dirname(os.path.dirname(os.path.abspath(__file__))))
from sim import runner, resp
from sim.oracle import Walker

def main():
    plan = json.load(open(sys.argv[1]))
    verbose = "-v" in sys.argv
    io = "-io" in sys.argv
    plan, res = runner.run_plan(plan, cleanup="-keep" not in sys.argv)
    print("config:", json.dumps(plan.get("config")))
    for li, (ev, code, err) in enumerate(res):
        life = plan["lifetimes"][li]
        print(f"=== lifetime {li} exit={code} end={life.get('end')} holds={life.get('holds')} faults={life.get('io_faults')} {err[-300:]}")
        steps = life["steps"]
        for e in ev:
            t = e["t"]
            if t == "resp":
                r = resp.parse(e.get("body"), e.get("stage"))
                print(f"[{e['step']}] {steps[e['step']].get('text')}\n      -> {r}")
            elif t == "io":
                if io: print("      io", e["k"], e["op"], e["path"], e.get("n", ""), e.get("to", ""), e.get("data", "")[:100] if verbose else "", "FAULT "+str(e.get("fault")) if e.get("fault") else "")
            elif t == "gate":
                if verbose or e.get("parked"): print("      ", json.dumps(e))
            elif t in ("issue", "start", "ready"):
                pass
            elif t == "fs":
                print("       fs snapshot:", len(e["files"]), "entries")
            else:
                print("      ", json.dumps(e)[:400])
    w = Walker(plan, res, {})
    try:
        viol, stats = w.run()
        for v in viol:
            print(f"VIOL {v['clause']} life {v['life']} step {v['step']}: {v['detail'][:300]}")
    except Exception as e:
        print("walker:", e)
    if "-keep" in sys.argv: print("root:", plan["root"])
main()
