#!/bin/sh
# usage: try_mutant.sh <seeded-dir> <PROP> [tier]   -- apply the patch to /repo, run the check, always undo
d=$1; p=$2; tier=${3:-quick}
cd /repo || exit 2
git diff --quiet || { echo "repo working tree not clean"; exit 2; }
git apply "$d/patch.diff" || { echo "patch does not apply"; exit 2; }
cd /verif && ./check $p --tier $tier > /tmp/try_mutant.out 2>&1; rc=$?
git -C /repo checkout -- .
grep -E "clause=|VIOLATION|KNOWN|HARNESS|$p $tier" /tmp/try_mutant.out | cut -c1-300
echo "exit=$rc"
# rebuild simnode against the clean tree
cd /verif/simnode && cargo build --quiet 2>/dev/null
