"""Query semantics of the reference model on the well-defined ("core") fragment:
typed WHERE evaluation, aggregates, ORDER BY / LIMIT / OFFSET, sequence matching.
Predicates are small ASTs:  ("cmp", field, op, literal) | ("in", field, [literals]) |
("and", a, b) | ("or", a, b) | ("not", a)."""
import json
from collections import defaultdict, OrderedDict


def lit_text(v):
    if isinstance(v, bool):
        return "true" if v else "false"
    if isinstance(v, str):
        return '"' + v + '"'
    return json.dumps(v)


def pred_text(p, top=True):
    k = p[0]
    if k == "cmp":
        return f"{p[1]} {p[2]} {lit_text(p[3])}"
    if k == "in":
        return f"{p[1]} IN ({', '.join(lit_text(x) for x in p[2])})"
    if k == "not":
        inner = pred_text(p[1], False)
        return f"NOT {inner}" if p[1][0] in ("cmp", "in", "not") else f"NOT ({pred_text(p[1])})"
    if k in ("and", "or"):
        s = f"{pred_text(p[1], False)} {k.upper()} {pred_text(p[2], False)}"
        return s if top else f"({s})"
    raise ValueError(p)


def pred_atoms(p):
    if p[0] == "cmp":
        return [("cmp", p[1], p[2], type(p[3]).__name__)]
    if p[0] == "in":
        return [("in", p[1], "IN", type(p[2][0]).__name__ if p[2] else "none")]
    if p[0] == "not":
        return [("not",)] + pred_atoms(p[1])
    return pred_atoms(p[1]) + pred_atoms(p[2])


def _cmp(a, op, b):
    if a is None:
        return False
    try:
        if op == "=":
            return a == b
        if op == "!=":
            return a != b
        if op == "<":
            return a < b
        if op == "<=":
            return a <= b
        if op == ">":
            return a > b
        if op == ">=":
            return a >= b
    except TypeError:
        return False
    raise ValueError(op)


def field_value(ev, field):
    if field == "context_id":
        return ev.ctx
    if field == "event_type":
        return ev.type
    if field == "timestamp":
        return ev.ts
    return ev.stored.get(field)


def eval_pred(p, ev):
    k = p[0]
    if k == "cmp":
        return _cmp(field_value(ev, p[1]), p[2], p[3])
    if k == "in":
        v = field_value(ev, p[1])
        return v is not None and v in p[2]
    if k == "not":
        return not eval_pred(p[1], ev)
    if k == "and":
        return eval_pred(p[1], ev) and eval_pred(p[2], ev)
    if k == "or":
        return eval_pred(p[1], ev) or eval_pred(p[2], ev)
    raise ValueError(p)


def select(events, q):
    """events: candidate Ev list (already of the right type and state). q: query dict with optional
    ctx, since (epoch s, on time field 'using' or timestamp), where."""
    out = []
    for e in events:
        if q.get("ctx") is not None and e.ctx != q["ctx"]:
            continue
        if q.get("since") is not None:
            tv = field_value(e, q.get("using") or "timestamp")
            if tv is None or tv < q["since"]:
                continue
        if q.get("where") is not None and not eval_pred(q["where"], e):
            continue
        out.append(e)
    return out


# ------------------------------------------------------------------ aggregates

DAY = 86400


def bucket_of(ts, gran):
    if gran == "HOUR":
        return ts - ts % 3600
    if gran == "DAY":
        return ts - ts % DAY
    if gran == "WEEK":
        # weeks start on Monday (config week_start = Mon); 1970-01-01 was a Thursday
        d = ts // DAY
        wd = (d + 3) % 7          # 0 = Monday
        return (d - wd) * DAY
    if gran == "MONTH":
        import datetime
        dt = datetime.datetime.fromtimestamp(ts, datetime.timezone.utc)
        return int(datetime.datetime(dt.year, dt.month, 1, tzinfo=datetime.timezone.utc).timestamp())
    raise ValueError(gran)


def metric_col(m):
    kind, field = m
    if kind == "COUNT":
        return "count" if field is None else f"count_{field}"
    if kind == "COUNT UNIQUE":
        return f"count_unique_{field}"
    return {"TOTAL": "total_", "AVG": "avg_", "MIN": "min_", "MAX": "max_"}[kind] + field


def metric_text(m):
    kind, field = m
    return kind if field is None else f"{kind} {field}"


def fold(metric, evs):
    kind, field = metric
    if kind == "COUNT" and field is None:
        return len(evs)
    vals = [field_value(e, field) for e in evs]
    nn = [v for v in vals if v is not None]
    if kind == "COUNT":
        return len(nn)
    if kind == "COUNT UNIQUE":
        return len(set(nn))
    if kind == "TOTAL":
        return sum(nn)
    if kind == "AVG":
        return (sum(nn) / len(nn)) if nn else None
    if kind == "MIN":
        return min(nn) if nn else None
    if kind == "MAX":
        return max(nn) if nn else None
    raise ValueError(kind)


def aggregate(evs, q):
    """Returns {group key tuple: {metric col: value}}; key = (bucket?, by fields...)."""
    groups = OrderedDict()
    for e in evs:
        key = []
        if q.get("per"):
            key.append(bucket_of(field_value(e, q.get("per_using") or "timestamp"), q["per"]))
        for f in q.get("by") or []:
            key.append(field_value(e, f))
        groups.setdefault(tuple(key), []).append(e)
    if not (q.get("per") or q.get("by")) and not groups:
        groups[()] = []
    return {k: {metric_col(m): fold(m, g) for m in q["metrics"]} for k, g in groups.items()}


def agg_text(q):
    s = ", ".join(metric_text(m) for m in q["metrics"])
    if q.get("per"):
        s += f" PER {q['per']}"
        if q.get("per_using"):
            s += f" USING {q['per_using']}"
    if q.get("by"):
        s += " BY " + ", ".join(q["by"])
    return s


# ------------------------------------------------------------------ order / limit

def sort_key_value(v):
    # missing keys: observed to sort first ascending (None < everything)
    return (0, 0) if v is None else (1, v)


def ordered_keys(evs, field, desc):
    keys = [field_value(e, field) for e in evs]
    keys.sort(key=sort_key_value, reverse=desc)
    return keys


# ------------------------------------------------------------------ sequences

def match_sequences(a_events, b_events, link, kind, time_field="timestamp"):
    """FOLLOWED BY: for every a, a qualifying b exists with same link value and b.time >= a.time.
    PRECEDED BY: b.time < a.time. Returns the set of k of matched a-events."""
    by_link = defaultdict(list)
    for b in b_events:
        lv = field_value(b, link)
        if lv is not None:
            by_link[lv].append(b)
    matched = set()
    for a in a_events:
        lv = field_value(a, link)
        if lv is None:
            continue
        ta = field_value(a, time_field)
        for b in by_link.get(lv, []):
            tb = field_value(b, time_field)
            if (kind == "FOLLOWED BY" and tb >= ta) or (kind == "PRECEDED BY" and tb < ta):
                matched.add(a.k)
                break
    return matched


def query_text(q):
    """Render a selection/aggregate query dict to command text."""
    s = f"QUERY {q['type']}"
    if q.get("ctx") is not None:
        from .history import ctx_text
        s += f" FOR {ctx_text(q['ctx'])}"
    if q.get("since") is not None:
        s += f' SINCE "{q["since"]}"'
        if q.get("using"):
            s += f" USING {q['using']}"
    if q.get("ret") is not None:
        s += " RETURN [" + ", ".join(q["ret"]) + "]"
    if q.get("where") is not None:
        s += " WHERE " + pred_text(q["where"])
    if q.get("metrics"):
        s += " " + agg_text(q)
    if q.get("order"):
        s += f" ORDER BY {q['order']}" + (" DESC" if q.get("desc") else "")
    if q.get("limit") is not None:
        s += f" LIMIT {q['limit']}"
    if q.get("offset") is not None:
        s += f" OFFSET {q['offset']}"
    return s
