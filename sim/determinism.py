#!/usr/bin/env python3
"""Determinism self-check: run the base plans (and a sample of variants) of the given profiles twice -
once with many workers, once with few - and compare the complete log digests lifetime by lifetime.
usage: python3 -m sim.determinism [--props C01,C03,...] [--seeds 3] [--limit 40]"""
import argparse, os, sys, time, random
from . import engine
from .profiles import PROFILES


def main():
    ap = argparse.ArgumentParser()
    ap.add_argument("--props", default=",".join(sorted(PROFILES)))
    ap.add_argument("--seeds", type=int, default=2)
    ap.add_argument("--limit", type=int, default=30)
    ap.add_argument("--repeat", type=int, default=2)
    ap.add_argument("--variants", type=int, default=0, help="per base plan (3 per profile): this many variants are added")
    a = ap.parse_args()
    jobs = []
    for prop in a.props.split(","):
        prof = PROFILES[prop]
        for s in range(a.seeds):
            plans = list(prof.gen(1000 + s, "quick"))[: a.limit]
            for p in plans:
                jobs.append((prop, p, dict(getattr(prof, "opts", {}), want_io=[p["enumerate_life"]] if "enumerate_life" in p else None)))
    # add a sample of the variants (crash points, gate crashes, torn appends, errno and read faults, two-fault passes)
    # of the first plans of every profile that has variants
    ap_v = a.variants
    if ap_v:
        vjobs = []
        for prop in a.props.split(","):
            prof = PROFILES[prop]
            if not hasattr(prof, "variants"):
                continue
            base = [(pr, p, o) for pr, p, o in jobs if pr == prop][:3]
            for pr, p, o in base:
                r = engine.execute((p, o))
                if r["harness"]:
                    continue
                vs = list(prof.variants(p, r, 1000, "quick"))
                rnd = random.Random(f"det:{prop}:{r['id']}")
                rnd.shuffle(vs)
                # keep every fault-carrying variant kind represented, then fill up with crash points
                faulty = [v for v in vs if any(l.get("io_faults") or l.get("holds") for l in v["lifetimes"])]
                for v in (faulty[: ap_v // 2] + vs)[:ap_v]:
                    vjobs.append((prop, v, dict(getattr(prof, "opts", {}), **(v.get("opts") or {}))))
        jobs += vjobs
        print(f"{len(vjobs)} variant plans added")
    from . import runner
    seen, uniq = set(), []
    for j in jobs:
        pid = runner.plan_id(j[1])
        if pid not in seen:
            seen.add(pid)
            uniq.append(j)
    jobs = uniq
    print(f"{len(jobs)} plans x {a.repeat} runs")
    results = []
    for rep in range(a.repeat):
        engine.WORKERS = 16 if rep % 2 == 0 else 3
        engine._POOL = None
        t0 = time.time()
        order = list(range(len(jobs)))
        random.Random(rep).shuffle(order)          # different co-scheduling of processes in every repetition
        out = {}
        shuffled = [(jobs[i][1], jobs[i][2]) for i in order]
        for i, (_, r) in zip(order, engine.run_jobs(shuffled)):
            out[i] = r
        results.append(out)
        if engine._POOL:
            engine._POOL.close()
        print(f"repetition {rep}: workers={engine.WORKERS} {time.time()-t0:.1f}s")
    bad = 0
    lifetimes = 0
    for i, (prop, p, o) in enumerate(jobs):
        ref = results[0][i]
        for rep in range(1, a.repeat):
            cur = results[rep][i]
            if ref["harness"] or cur["harness"]:
                if (ref["harness"] is None) != (cur["harness"] is None):
                    bad += 1
                    print("DIVERGED (harness)", prop, ref["id"], ref["harness"], cur["harness"])
                continue
            h1 = [x["log_hash"] for x in ref["io"]]
            h2 = [x["log_hash"] for x in cur["io"]]
            lifetimes += len(h1)
            if h1 != h2:
                bad += 1
                print("DIVERGED", prop, ref["id"], h1, h2)
    print(f"compared {len(jobs)} plans, {lifetimes} lifetimes: {bad} divergences")
    sys.exit(1 if bad else 0)


if __name__ == "__main__":
    main()
