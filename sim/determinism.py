#!/usr/bin/env python3
"""Determinism self-check: run the base plans (and a sample of variants) of the given profiles twice -
once with many workers, once with few - and compare the complete log digests lifetime by lifetime.
usage: python3 -m sim.determinism [--props C01,C03,...] [--seeds 3] [--limit 40]"""
import argparse, os, sys, time, random
from . import engine
from .profiles import PROFILES


def main():
    ap = argparse.ArgumentParser()
    ap.add_argument("--props", default=",".join(sorted(PROFILES)))
    ap.add_argument("--seeds", type=int, default=2)
    ap.add_argument("--limit", type=int, default=30)
    ap.add_argument("--repeat", type=int, default=2)
    a = ap.parse_args()
    jobs = []
    for prop in a.props.split(","):
        prof = PROFILES[prop]
        for s in range(a.seeds):
            plans = list(prof.gen(1000 + s, "quick"))[: a.limit]
            for p in plans:
                jobs.append((prop, p, dict(getattr(prof, "opts", {}), want_io=[p["enumerate_life"]] if "enumerate_life" in p else None)))
    # add crash variants of a few plans
    extra = []
    first = {}
    for (prop, p, o), r in zip(jobs, (engine.execute((p, o)) for prop, p, o in jobs[:0])):
        pass
    print(f"{len(jobs)} plans x {a.repeat} runs")
    results = []
    for rep in range(a.repeat):
        engine.WORKERS = 16 if rep % 2 == 0 else 3
        engine._POOL = None
        t0 = time.time()
        order = list(range(len(jobs)))
        random.Random(rep).shuffle(order)          # different co-scheduling of processes in every repetition
        out = {}
        shuffled = [(jobs[i][1], jobs[i][2]) for i in order]
        for i, (_, r) in zip(order, engine.run_jobs(shuffled)):
            out[i] = r
        results.append(out)
        if engine._POOL:
            engine._POOL.close()
        print(f"repetition {rep}: workers={engine.WORKERS} {time.time()-t0:.1f}s")
    bad = 0
    lifetimes = 0
    for i, (prop, p, o) in enumerate(jobs):
        ref = results[0][i]
        for rep in range(1, a.repeat):
            cur = results[rep][i]
            if ref["harness"] or cur["harness"]:
                if (ref["harness"] is None) != (cur["harness"] is None):
                    bad += 1
                    print("DIVERGED (harness)", prop, ref["id"], ref["harness"], cur["harness"])
                continue
            h1 = [x["log_hash"] for x in ref["io"]]
            h2 = [x["log_hash"] for x in cur["io"]]
            lifetimes += len(h1)
            if h1 != h2:
                bad += 1
                print("DIVERGED", prop, ref["id"], h1, h2)
    print(f"compared {len(jobs)} plans, {lifetimes} lifetimes: {bad} divergences")
    sys.exit(1 if bad else 0)


if __name__ == "__main__":
    main()
