#!/usr/bin/env python3
"""Seed sweep: run a property's quick batch for several seeds and aggregate the cause-class tuples of
violations that no open known finding matches. usage: python3 -m sim.sweep PROP [nseeds] [tier]"""
import sys, subprocess, re, collections
prop = sys.argv[1]; n = int(sys.argv[2]) if len(sys.argv) > 2 else 5; tier = sys.argv[3] if len(sys.argv) > 3 else "quick"
agg = collections.Counter(); per_seed = {}
for seed in range(101, 101 + n):
    out = subprocess.run(["./check", prop, "--tier", tier, "--no-build", "--no-shrink", "--inventory", "--seed", str(seed)],
                         stdout=subprocess.PIPE, stderr=subprocess.STDOUT, cwd="/verif").stdout.decode()
    tuples = set()
    for line in out.splitlines():
        m = re.match(r"INVENTORY\s+(\d+) (.*)$", line)
        if m:
            agg[m.group(2)] += int(m.group(1)); tuples.add(m.group(2))
        if "HARNESS" in line: print(seed, line[:300])
    per_seed[seed] = tuples
    tail = [l for l in out.splitlines() if l.startswith(prop + " ")]
    print(seed, tail[-1] if tail else out[-300:])
for k, v in sorted(agg.items()):
    seeds = [s for s, t in per_seed.items() if k in t]
    print(f"{v:7d} seeds={len(seeds)}/{n} {k}")
