"""Decode the bytes a command wrote to its connection (JSON renderer)."""
import json


class Resp:
    __slots__ = ("kind", "status", "message", "results", "columns", "types", "rows", "row_count",
                 "raw", "stage", "frames_ok", "count")

    def __init__(self):
        self.kind = "none"      # none | plain | stream | text | garbled
        self.status = None
        self.message = None
        self.results = None
        self.columns = None
        self.types = None
        self.rows = None
        self.row_count = None
        self.raw = ""
        self.stage = None
        self.frames_ok = True
        self.count = None

    def ok(self):
        return (self.kind == "stream" and self.frames_ok) or (self.kind == "plain" and self.status == 200)

    def dicts(self):
        return [dict(zip(self.columns, r)) for r in (self.rows or [])]

    def __repr__(self):
        if self.kind == "stream":
            return f"<stream cols={self.columns} rows={self.rows} end={self.row_count}>"
        return f"<{self.kind} status={self.status} msg={self.message!r} results={self.results!r}>"


def parse(body, stage=None):
    r = Resp()
    r.raw = body
    r.stage = stage
    if body is None:
        return r
    lines = [l for l in body.split("\n") if l.strip()]
    if not lines:
        return r
    objs = []
    for l in lines:
        try:
            objs.append(json.loads(l))
        except Exception:
            r.kind = "text"
            r.message = body
            return r
    first = objs[0]
    if isinstance(first, dict) and first.get("type") == "schema":
        r.kind = "stream"
        cols = first.get("columns", [])
        r.columns = [c["name"] for c in cols]
        r.types = [c.get("logical_type") for c in cols]
        r.rows = []
        ended = False
        for o in objs[1:]:
            ty = o.get("type") if isinstance(o, dict) else None
            if ended:
                r.frames_ok = False
            if ty == "batch":
                r.rows.extend(o.get("rows", []))
            elif ty == "row":
                vals = o.get("values", {})
                r.rows.append([vals.get(c) for c in r.columns])
            elif ty == "end":
                r.row_count = o.get("row_count")
                ended = True
            else:
                r.frames_ok = False
        if not ended:
            r.frames_ok = False
        r.status = 200
        return r
    if isinstance(first, dict) and "status" in first:
        r.kind = "plain"
        r.status = first.get("status")
        r.message = first.get("message")
        r.results = first.get("results")
        r.count = first.get("count")
        # Table body: results = [{"columns":[{name,type}],"rows":[[...]]}]
        if (isinstance(r.results, list) and len(r.results) == 1 and isinstance(r.results[0], dict)
                and "columns" in r.results[0] and "rows" in r.results[0]):
            t = r.results[0]
            r.columns = [c.get("name") for c in t["columns"]]
            r.types = [c.get("type") for c in t["columns"]]
            r.rows = t["rows"]
        return r
    r.kind = "garbled"
    return r
