"""Per-property workload generators (plans), variant generators and clause selection."""
import random, copy
from .history import H, BASE_WALL_MS
from . import engine


def rnd(prop, seed, *parts):
    return random.Random(f"{prop}:{seed}:" + ":".join(str(p) for p in parts))


SIMPLE_SCHEMAS = [
    {"k": "int", "s": "string"},
    {"k": "int", "v": "float"},
    {"k": "int", "b": "bool", "n": "int | null"},
    {"k": "int"},
]


def payload_for(schema, k, rng):
    p = {}
    for f, spec in schema.items():
        if f == "k":
            p[f] = k
        elif spec == "string":
            p[f] = rng.choice(["x", "y", "zed", "", "a b", "17"])
        elif spec == "float":
            p[f] = rng.choice([0.5, 1.5, -2.25, 3.0, 100.125])
        elif spec == "bool":
            p[f] = rng.choice([True, False])
        elif spec == "int | null":
            p[f] = rng.choice([None, 0, -7, 12])
        elif spec == "int":
            p[f] = rng.randrange(-5, 50)
        else:
            p[f] = None
    return p


def swarm_config(rng, durable=True, shards=(1, 2, 3), caps=None):
    fill = rng.choice([1, 1, 2, 3])
    epz = rng.choice([1, 1, 2, 3])
    cfg = {"shard_count": rng.choice(shards), "fill_factor": fill, "event_per_zone": epz,
           "segments_per_merge": rng.choice([2, 2, 3]), "max_inflight_passives": rng.choice([2, 8]),
           "compaction_interval": 3600}
    if durable:
        cfg["wal"] = {"flush_each_write": True, "buffered": rng.choice([False, True]),
                      "buffer_size": rng.choice([64, 8192]), "fsync": rng.choice([False, False, True]),
                      "fsync_every_n": rng.choice([1, 2, 32])}
    else:
        cfg["wal"] = {"flush_each_write": False, "buffered": True, "buffer_size": rng.choice([64, 256, 8192]),
                      "fsync": False, "fsync_every_n": 32}
    return cfg


def gen_ops(h, rng, n_ops, types, ctxs, p_flush=0.12, p_compact=0.06, p_read=0.08):
    """Random DEFINE-free mix of STORE / FLUSH / compaction / checkpoint reads appended to the current lifetime."""
    for _ in range(n_ops):
        x = rng.random()
        if x < p_flush:
            h.flush()
        elif x < p_flush + p_compact:
            h.compact()
        elif x < p_flush + p_compact + p_read:
            h.read_all(tag="mid")
        else:
            t = rng.choice(types)
            k = h.new_k()
            h.store(t, rng.choice(ctxs), payload_for(h.types[t], k, rng), k=k)


# ------------------------------------------------------------------ C01

class C01:
    id = "C01"
    level = "fault_enumeration"
    design_ref = "DESIGN.md §5 C01"
    technique = "deterministic simulation: seeded histories x enumerated crash points (I/O events) + model oracle"
    level_text = ("Seeded random histories (DEFINE/STORE/FLUSH/compaction/restart, swarm of configurations); for each history the "
                  "last working lifetime is re-run once per crash point (every numbered filesystem mutation when few, otherwise "
                  "first/last of every op x path class plus a seeded sample) with process exit at that instant, then restarted and "
                  "read back: selection, COUNT and REPLAY against a reference model (must/may sets).")
    level_note = ("Process crashes only (no power loss). Trusted: libc interposition covers all mutating calls; single runtime "
                  "thread; the model's must-set = STOREs answered 200 in a completed, quiesced step.")
    clauses = {"lost", "foreign-row", "duplicate-row", "wrong-value", "id-change", "count-vs-selection",
               "replay-lost", "replay-duplicate", "replay-foreign", "frames", "read-error", "hole", "panic",
               "flush-error", "rejected-valid"}
    budgets = {"quick": {"histories": 10, "crash_limit": 60}, "thorough": {"histories": 200, "crash_limit": 100000}}

    @staticmethod
    def relevant(v):
        return v["after_restart"]

    @staticmethod
    def gen(seed, tier):
        n = C01.budgets[tier]["histories"]
        for i in range(n):
            rng = rnd("C01", seed, i)
            durable = rng.random() < 0.8
            cfg = swarm_config(rng, durable=durable)
            h = H(seed, "C01", cfg, uid_salt=f"C01-{seed}-{i}")
            ntypes = rng.choice([1, 1, 2, 3])
            types = [f"t{j}" for j in range(ntypes)]
            ctxs = [f"c{j}" for j in range(rng.choice([1, 2, 3, 5]))]
            nlife = rng.choice([1, 1, 2, 3])
            for li in range(nlife):
                h.life(end=rng.choice(["shutdown", "kill"]))
                if li == 0:
                    for t in types:
                        h.define(t, rng.choice(SIMPLE_SCHEMAS))
                else:
                    h.read_all(tag="after-restart")
                gen_ops(h, rng, rng.randrange(3, 14), types, ctxs)
                if rng.random() < 0.5:
                    h.read_all(tag="pre-end")
            last_work = len(h.plan["lifetimes"]) - 1
            # verification lifetime: reads, a little more work, reads again
            h.life(end="shutdown")
            h.read_all(tag="verify")
            gen_ops(h, rng, rng.randrange(1, 4), types, ctxs, p_flush=0.3, p_compact=0.0, p_read=0.0)
            h.flush()
            h.read_all(tag="verify2")
            h.life(end="shutdown")
            h.read_all(tag="verify3")
            plan = h.done()
            plan["enumerate_life"] = last_work
            yield plan

    @staticmethod
    def variants(plan, result, seed, tier):
        li = plan["enumerate_life"]
        info = result["io"][li] if li < len(result["io"]) else None
        if not info or "events" not in info:
            return
        rng = rnd("C01v", seed, result["id"])
        limit = C01.budgets[tier]["crash_limit"]
        for k in engine.choose_crash_points(info["events"], info.get("startup_io", 0), rng, limit):
            yield engine.crash_variant(plan, li, k)
        # crash right after a torn WAL append (short write then exit): last WAL write of the lifetime
        # and kill-idle after every step are covered by 'kill' ends of the base histories


PROFILES = {"C01": C01}

NOT_APPLICABLE = {
    "C08": "pure function of (zone value multiset, probe): no schedule, clock, fault or history in it; its end-to-end consequence is covered by C02's layout-invariance oracle",
    "C16": "pure function of literal spellings and the configured timezone: nothing for a simulator to schedule, delay or break",
    "C17": "totality of parsing/dispatch is a pure function of the input string; no interleaving, crash or clock involved",
    "C20": "pure function of (result batch, renderer); no nondeterminism or fault surface",
}
for _p in ("C02","C03","C04","C05","C06","C07","C09","C10","C11","C12","C13","C14","C15","C18","C19"):
    NOT_APPLICABLE.setdefault(_p, "check under construction in this session (claimed by DESIGN.md; profile not yet registered)")

