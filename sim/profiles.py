"""Per-property workload generators (plans), variant generators and clause selection."""
import random, copy
from .history import H, BASE_WALL_MS, schema_text
from . import engine


def rnd(prop, seed, *parts):
    return random.Random(f"{prop}:{seed}:" + ":".join(str(p) for p in parts))


SIMPLE_SCHEMAS = [
    {"k": "int", "s": "string"},
    {"k": "int", "v": "float"},
    {"k": "int", "b": "bool", "n": "int | null"},
    {"k": "int"},
]


def payload_for(schema, k, rng):
    p = {}
    for f, spec in schema.items():
        if f == "k":
            p[f] = k
        elif spec == "string":
            p[f] = rng.choice(["x", "y", "zed", "a b", "w-1"])
        elif spec == "float":
            p[f] = rng.choice([0.5, 1.5, -2.25, 3.0, 100.125])
        elif spec == "bool":
            p[f] = rng.choice([True, False])
        elif spec == "int | null":
            p[f] = rng.choice([None, 0, -7, 12])
        elif spec == "int":
            p[f] = rng.randrange(-5, 50)
        else:
            p[f] = None
    return p


def swarm_config(rng, durable=True, shards=(1, 2, 3), caps=None):
    fill = rng.choice([1, 1, 2, 3])
    epz = rng.choice([1, 1, 2, 3])
    cfg = {"shard_count": rng.choice(shards), "fill_factor": fill, "event_per_zone": epz,
           "segments_per_merge": rng.choice([2, 2, 3]), "max_inflight_passives": rng.choice([2, 8]),
           "compaction_interval": 3600}
    if durable:
        cfg["wal"] = {"flush_each_write": True, "buffered": rng.choice([False, True]),
                      "buffer_size": rng.choice([64, 8192]), "fsync": rng.choice([False, False, True]),
                      "fsync_every_n": rng.choice([1, 2, 32])}
    else:
        cfg["wal"] = {"flush_each_write": False, "buffered": True, "buffer_size": rng.choice([64, 256, 8192]),
                      "fsync": False, "fsync_every_n": 32}
    return cfg


def gen_ops(h, rng, n_ops, types, ctxs, p_flush=0.12, p_compact=0.06, p_read=0.08, force_bad=None):
    """Random DEFINE-free mix of STORE / FLUSH / compaction / checkpoint reads appended to the current lifetime.
    force_bad ('blank' | 'field'): one STORE that must be rejected is placed early in the mix (stratified, so that a
    small batch of histories always contains both kinds instead of meeting them with probability 0.02 per operation)."""
    bad_at = rng.randrange(0, max(1, n_ops // 3)) if force_bad else -1
    for opi in range(n_ops):
        if opi == bad_at:
            t = rng.choice(types)
            k = h.new_k()
            bad = payload_for(h.types[t], k, rng)
            if force_bad == "blank":
                h.store(t, rng.choice(["   ", " ", "\t"]), bad, k=k, valid=False)
            else:
                bad.pop(next(iter(bad)))
                h.store(t, rng.choice(ctxs), bad, k=k, valid=False)
        x = rng.random()
        if x < p_flush:
            h.flush()
        elif x < p_flush + p_compact:
            h.compact()
        elif x < p_flush + p_compact + p_read:
            h.read_all(tag="mid")
        else:
            t = rng.choice(types)
            k = h.new_k()
            if rng.random() < 0.04:
                # a STORE that must be rejected (blank context id / missing field); it must leave no trace - in
                # particular no WAL entry that recovery trips over
                bad = payload_for(h.types[t], k, rng)
                if rng.random() < 0.5:
                    h.store(t, rng.choice(["   ", ""]), bad, k=k, valid=False)
                else:
                    bad.pop(next(iter(bad)))
                    h.store(t, rng.choice(ctxs), bad, k=k, valid=False)
                continue
            h.store(t, rng.choice(ctxs), payload_for(h.types[t], k, rng), k=k)


# ------------------------------------------------------------------ C01

class C01:
    id = "C01"
    level = "fault_enumeration"
    design_ref = "DESIGN.md §5 C01"
    technique = "deterministic simulation: seeded histories x enumerated crash points (I/O events) + model oracle"
    level_text = ("Seeded random histories (DEFINE/STORE/FLUSH/compaction/restart, swarm of configurations); for each history the "
                  "last working lifetime is re-run once per crash point (every numbered filesystem mutation when few, otherwise "
                  "first/last of every op x path class plus a seeded sample) with process exit at that instant, then restarted and "
                  "read back: selection, COUNT and REPLAY against a reference model (must/may sets). Further variants of the same "
                  "lifetime: exit at the in-memory steps of a flush (gates), a torn WAL append followed by exit, a second crash "
                  "during the recovery, and errno faults (EIO/ENOSPC/EACCES) on the n-th open/write/fsync/rename/mkdir/unlink of one "
                  "path class of the flush or compaction output (the operation may fail; data must stay readable and durable). "
                  "Rejected STOREs (blank context id, missing field) are placed in fixed histories of every batch.")
    level_note = ("Process crashes only (no power loss). Trusted: libc interposition covers all mutating calls; single runtime "
                  "thread; the model's must-set = STOREs answered 200 in a completed, quiesced step.")
    clauses = {"lost", "foreign-row", "duplicate-row", "wrong-value", "id-change", "count-vs-selection",
               "replay-lost", "replay-duplicate", "replay-foreign", "frames", "read-error", "hole", "panic",
               "flush-error", "rejected-valid", "accepted-invalid", "restart-panic"}
    budgets = {"quick": {"histories": 10, "crash_limit": 60}, "thorough": {"histories": 160, "crash_limit": 100000}}

    @staticmethod
    def relevant(v):
        return v["after_restart"]

    @staticmethod
    def gen(seed, tier):
        n = C01.budgets[tier]["histories"]
        for i in range(n):
            rng = rnd("C01", seed, i)
            durable = rng.random() < 0.8
            cfg = swarm_config(rng, durable=durable)
            h = H(seed, "C01", cfg, uid_salt=f"C01-{seed}-{i}")
            ntypes = rng.choice([1, 1, 2, 3])
            types = [f"t{j}" for j in range(ntypes)]
            ctxs = [f"c{j}" for j in range(rng.choice([1, 2, 3, 5]))]
            nlife = rng.choice([1, 1, 2, 3])
            for li in range(nlife):
                h.life(end=rng.choice(["shutdown", "kill"]))
                if li == 0:
                    for t in types:
                        h.define(t, rng.choice(SIMPLE_SCHEMAS))
                else:
                    h.read_all(tag="after-restart")
                gen_ops(h, rng, rng.randrange(3, 14), types, ctxs,
                        force_bad=[None, "blank", None, "field"][i % 4] if li == 0 else None)
                if rng.random() < 0.5:
                    h.read_all(tag="pre-end")
            last_work = len(h.plan["lifetimes"]) - 1
            if i % 2 == 0:
                # second crash before anything is flushed: whatever the first crash left at the end of the newest WAL log
                # (torn line, line without newline) is now followed by new appends, and those must survive as well
                h.life(end="kill")
                h.read_all(tag="verify0")
                gen_ops(h, rng, rng.randrange(1, 3), types, ctxs, p_flush=0.0, p_compact=0.0, p_read=0.0)
                h.read_all(tag="verify0b")
            # verification lifetime: reads, a little more work, reads again
            h.life(end="shutdown")
            h.read_all(tag="verify")
            gen_ops(h, rng, rng.randrange(1, 4), types, ctxs, p_flush=0.3, p_compact=0.0, p_read=0.0)
            h.flush()
            h.read_all(tag="verify2")
            h.life(end="shutdown")
            h.read_all(tag="verify3")
            plan = h.done()
            plan["enumerate_life"] = last_work
            yield plan

    @staticmethod
    def variants(plan, result, seed, tier):
        li = plan["enumerate_life"]
        info = result["io"][li] if li < len(result["io"]) else None
        if not info or "events" not in info:
            return
        rng = rnd("C01v", seed, result["id"])
        limit = C01.budgets[tier]["crash_limit"]
        for k in engine.choose_crash_points(info["events"], info.get("startup_io", 0), rng, limit):
            yield engine.crash_variant(plan, li, k)
        # crash at in-memory step boundaries of a flush (equivalent durable state to the neighbouring I/O events, but
        # reached through the gate, i.e. also between publication in the live list and the passive-buffer release)
        gates = ["flush.written", "flush.verified", "flush.published", "flush.released", "flush.pruned", "flush.done"]
        nfl = (info.get("gates") or {}).get("flush.start", 0)
        for g in rng.sample(gates, 2 if tier == "quick" else len(gates)):
            for nth in ([1] if tier == "quick" else range(1, min(nfl, 4) + 1)):
                if nfl >= nth:
                    p = copy.deepcopy(plan)
                    p.pop("id", None)
                    p["lifetimes"][li]["holds"] = [{"id": "crashgate", "gate": g, "key": "", "nth": nth, "crash": True}]
                    p["variant"] = {"crash_at_gate": g, "nth": nth}
                    yield p
        # torn WAL append: the n-th append writes only its first bytes, then the process dies (with an unbuffered
        # WAL the line and its newline are two writes, so the next lifetime appends to a torn line)
        wal_writes = [k for k, op, pc in info["events"] if op == "write" and pc == "wal-log"]
        for nth in rng.sample(range(1, len(wal_writes) + 1), min(len(wal_writes), 2 if tier == "quick" else 12)):
            p = copy.deepcopy(plan)
            p.pop("id", None)
            p["lifetimes"][li]["io_faults"] = [{"id": "torn-wal", "op": "write", "path": "wal/shard-*/wal-*.log", "nth": nth,
                                                 "short": rng.choice([0, 1, 17, 60]), "then_crash": True}]
            p["variant"] = {"torn_wal_append": nth}
            yield p
        # errno faults on the flush / compaction output of that lifetime (EIO, ENOSPC, EACCES on the n-th open, write,
        # fsync, rename or mkdir of one path class): the operation may fail, the events must stay readable (passive
        # buffer) and durable (WAL) - in this process and after the restarts that follow
        evs = [e for e in info["events"] if e[0] > info.get("startup_io", 0)]
        classes = sorted({(op, pc) for _, op, pc in evs
                          if op in ("open", "write", "rename", "mkdir", "fsync", "unlink", "rmdir")
                          and (pc.startswith("seg") or pc in ("segment-dir", "reclaim", "shard-dir"))})
        rng.shuffle(classes)
        for op, pc in classes[: (5 if tier == "quick" else 60)]:
            p = copy.deepcopy(plan)
            p.pop("id", None)
            glob = {"segidx-tmp": "*segments.idx.tmp", "segidx": "*segments.idx", "segment-dir": "cols/*/*",
                    "reclaim": "cols/*/.reclaim*", "shard-dir": "cols/shard-*"}.get(pc, "cols/*/*/*." + pc[4:])
            p["lifetimes"][li]["io_faults"] = [{"id": f"e-{op}-{pc}", "op": op, "path": glob,
                                                 "nth": rng.choice([1, 1, 2, 3, 5]), "errno": rng.choice(["EIO", "ENOSPC", "EACCES"])}]
            p["lifetimes"][li]["fault_after_io"] = info.get("startup_io", 0)
            p["opts"] = {"faulty": True}
            p["variant"] = {"errno": f"{op}:{pc}"}
            yield p
        # a second crash during the recovery that follows a crash (restart lifetime killed at one of its first I/O events)
        if li + 1 < len(plan["lifetimes"]):
            for k in rng.sample(range(1, 30), 2 if tier == "quick" else 10):
                p = engine.crash_variant(plan, li, rng.choice([e[0] for e in info["events"]]))
                nxt = copy.deepcopy(p["lifetimes"][li + 1])
                nxt["steps"] = []
                nxt["end"] = {"crash_before_io": k}
                p["lifetimes"].insert(li + 1, nxt)
                yield p


# ====================================================================== shared scripts

def layout_script(h, rng, store_one, n_events, checkpoint, restarts=True, compaction=True, min_cp=3, clock_back=0.0, preset=None):
    """Store n_events (callback store_one()) while walking through storage layouts; call checkpoint(tag)
    after every layout-changing step. The current lifetime must exist and types must be defined."""
    remaining = n_events
    script = []
    while remaining > 0:
        n = min(remaining, rng.randrange(1, 6))
        script.append(("stores", n))
        remaining -= n
        x = rng.random()
        if x < 0.30:
            script.append(("flush",))
        elif x < 0.45 and compaction:
            script.append(("compact",))
        elif x < 0.55 and restarts:
            script.append(("restart", rng.choice(["shutdown", "kill"])))
    tail = [("flush",)]
    if compaction:
        tail += [("compact",), ("compact",)]
    if restarts:
        tail += [("restart", "shutdown"), ("restart", "kill")]
    rng.shuffle(tail)
    script += [("cp",)] + tail[:rng.randrange(2, len(tail) + 1)]
    if preset == "drain-then-clock-back":
        # everything flushed and compacted out of level 0, nothing left in memory or in the WAL, clean restart with the
        # wall clock behind the newest stored id, then new appends: the only witness of "newest id" is a compacted segment
        script = []
        for _ in range(rng.choice([2, 3, 4])):
            script += [("stores", rng.randrange(1, 4)), ("flush",)]
        script += [("compact",), ("compact",), ("cp",), ("restart-back", "shutdown"), ("stores", rng.randrange(1, 4)), ("cp",),
                   ("flush",), ("stores", 1), ("restart", rng.choice(["shutdown", "kill"]))]
    for op in script:
        if op[0] == "stores":
            for _ in range(op[1]):
                store_one()
            if rng.random() < 0.4:
                checkpoint("mem")
        elif op[0] == "flush":
            h.flush()
            checkpoint("flushed")
        elif op[0] == "compact":
            h.compact()
            checkpoint("compacted")
        elif op[0] in ("restart", "restart-back"):
            h.end(op[1])
            if op[0] == "restart-back" or rng.random() < clock_back:
                # the wall clock comes back behind everything stored so far (NTP step, VM restore): ids and append
                # order must not depend on it
                h.life(end="shutdown", wall_ms=BASE_WALL_MS - rng.choice([1, 5_000, 3_600_000]))
                h.cur["clock_back"] = True
            else:
                h.life(end="shutdown")
            for t in h.types:
                h.select(t, tag="rebase")
            checkpoint("restart-" + op[1])
        elif op[0] == "cp":
            checkpoint("cp")
    checkpoint("final")


class Base:
    design_ref = "DESIGN.md §5"
    level = "exploration"
    opts = {"rebase_after_restart": True}
    level_note = ("Sampling over seeded histories, not enumeration. Trusted: the reference model (core typed fragment), "
                  "libc interposition, single runtime thread with gates for the interleavings that matter.")

    @staticmethod
    def relevant(v):
        return True


# ====================================================================== C03

FLUSH_GATES = ["flush.start", "flusher.before_index", "flush.written", "flush.verified", "flush.published",
               "flush.released", "flush.pruned"]


class C03(Base):
    id = "C03"
    technique = "deterministic simulation: hold rules park the flush task / read flows at gates; frozen-state reads vs model"
    level_text = ("Seeded histories with tiny memtables so STOREs rotate constantly; the flush task of a chosen rotation is parked "
                  "at each flush gate in turn (optionally with further rotations queued behind it, and with a read flow parked "
                  "across publication/release), and selection, COUNT and REPLAY are issued against that frozen intermediate "
                  "state and again after release; every applied event must appear exactly once and COUNT must equal the number "
                  "of distinct rows of the selection issued in the same state.")
    clauses = {"lost", "duplicate-row", "foreign-row", "wrong-value", "count-vs-selection", "replay-lost",
               "replay-duplicate", "replay-foreign", "frames", "read-error", "panic", "id-change"}
    budgets = {"quick": {"histories": 160}, "thorough": {"histories": 40000}}

    @staticmethod
    def gen(seed, tier):
        n = C03.budgets[tier]["histories"]
        for i in range(n):
            rng = rnd("C03", seed, i)
            readgate = rng.random() < 0.35
            cfg = {"shard_count": 1 if readgate else rng.choice([1, 1, 2]), "fill_factor": rng.choice([1, 2, 3]),
                   "event_per_zone": rng.choice([1, 1, 2]), "segments_per_merge": 2, "max_inflight_passives": rng.choice([2, 8]),
                   "wal": {"flush_each_write": True, "buffered": False}}
            cap = cfg["fill_factor"] * cfg["event_per_zone"]
            h = H(seed, "C03", cfg, uid_salt=f"C03-{seed}-{i}")
            h.life(end="shutdown")
            types = ["t0"] if rng.random() < 0.7 else ["t0", "t1"]
            for t in types:
                h.define(t, {"k": "int", "s": "string"})
            ctxs = [f"c{j}" for j in range(rng.choice([1, 2, 3]))]
            gate = rng.choice(FLUSH_GATES)
            nth = rng.choice([1, 1, 2, 3])
            h.hold("hf", gate, key="s0/*" if gate != "flusher.before_index" else "", nth=nth)

            def st():
                t = rng.choice(types)
                k = h.new_k()
                h.store(t, rng.choice(ctxs), payload_for(h.types[t], k, rng), k=k)
            # enough stores to reach the nth rotation on shard 0 (all contexts may hash elsewhere when 2 shards)
            for _ in range(cap * nth * cfg["shard_count"] + rng.randrange(0, cap + 1)):
                st()
            nreads = [0]

            def cp(tag):
                before = sum(1 for s in h.cur["steps"] if (s.get("meta") or {}).get("kind") in ("select", "count", "replay", "query"))
                h.read_all(tag=tag)
            cp("parked")
            # more stores while the flush is parked: overlapping rotations queue behind it
            for _ in range(rng.randrange(0, 2 * cap + 1)):
                st()
            cp("parked+more")
            if readgate:
                # park a read's memtable flow, let the flush run through publication and release, then let the read finish
                rgate = rng.choice(["read.mem.start", "read.seg.start"])
                t = rng.choice(types)
                kind = rng.choice(["select", "count", "replay"])
                if kind == "count":
                    h.select(t, tag="racing-ref")
                hr = h.hold_next(rgate)
                if kind == "select":
                    rs = h.select(t, tag="racing", **{"async": True})
                elif kind == "count":
                    rs = h.count(t, tag="racing", **{"async": True})
                else:
                    rs = h.replay(rng.choice(ctxs), tag="racing", **{"async": True})
                h.release("hf")
                h.release(hr)
                h.await_(rs)
            elif cfg["shard_count"] == 1 and i % 4 == 0:
                # both flows of a read are parked at their start, the flush runs to its very end (publication, release,
                # pruning, in-flight marker dropped), then the flows run: whatever the read decided when it was planned,
                # the events are in the published segment now and must be found there
                t = rng.choice(types)
                hm = h.hold_next("read.mem.start")
                hs = h.hold_next("read.seg.start")
                rs = h.select(t, tag="late-flows", **{"async": True}) if rng.random() < 0.6 else h.replay(rng.choice(ctxs), tag="late-flows", **{"async": True})
                h.release("hf")
                h.barrier()
                h.release(hs)
                h.release(hm)
                h.await_(rs)
            else:
                h.release("hf")
            cp("released")
            yield h.done()



# ====================================================================== C04

class C04(Base):
    id = "C04"
    technique = "deterministic simulation: layout histories + forced delivery order of memtable/segment flows; order oracle"
    level_text = ("Seeded histories in which one focus context's appends are interleaved with other contexts/types and with FLUSH, "
                  "compaction rounds and clean/kill restarts so that it spans compacted, L0, passive and active tiers; every REPLAY "
                  "variant (all types / one type / SINCE / RETURN) is issued at every checkpoint, and for a subset of replays the "
                  "memtable flow or the segment flow is parked at its start gate so that the other delivers first. A third of the "
                  "histories restart with the wall clock behind everything stored; fixed histories drain level 0 completely before "
                  "such a restart. The returned sequence of events must equal the model's apply order (order compared, not only "
                  "membership).")
    clauses = {"replay-order", "replay-lost", "replay-duplicate", "replay-foreign", "wrong-value", "frames", "read-error", "panic"}
    budgets = {"quick": {"histories": 120}, "thorough": {"histories": 30000}}

    @staticmethod
    def gen(seed, tier):
        for i in range(C04.budgets[tier]["histories"]):
            rng = rnd("C04", seed, i)
            cfg = {"shard_count": rng.choice([1, 1, 2, 3]), "fill_factor": rng.choice([1, 2, 3]), "event_per_zone": rng.choice([1, 2, 3]),
                   "segments_per_merge": rng.choice([2, 3]), "wal": {"flush_each_write": True, "buffered": False}}
            h = H(seed, "C04", cfg, uid_salt=f"C04-{seed}-{i}")
            h.life(end="shutdown")
            types = ["t0"] if rng.random() < 0.5 else ["t0", "t1"]
            for t in types:
                h.define(t, {"k": "int", "s": "string"})
            focus = "cf"
            others = [f"o{j}" for j in range(rng.choice([0, 1, 3]))]
            h.ctxs.append(focus)

            stored_ts = []

            def st():
                t = rng.choice(types)
                k = h.new_k()
                c = focus if (not others or rng.random() < 0.6) else rng.choice(others)
                h.store(t, c, {"k": k, "s": rng.choice(["x", "y", "zed"])}, k=k)
                if c == focus:
                    stored_ts.append(h.wall_now() // 1000)

            def cp(tag):
                h.step({"op": "barrier", "meta": {"kind": "checkpoint", "tag": tag}})
                variants = [None] + types
                for t in variants:
                    mode = rng.random()
                    if mode < 0.4 and cfg["shard_count"] == 1:
                        # force which flow delivers first: park one flow of this replay, then release
                        gate = rng.choice(["read.mem.start", "read.seg.start"])
                        hid = h.hold_next(gate)
                        rs = h.replay(focus, t, tag=tag + ":" + gate, **{"async": True})
                        h.release(hid)
                        h.await_(rs)
                    else:
                        h.replay(focus, t, tag=tag)
                if stored_ts and rng.random() < 0.7:
                    # SINCE exactly at the timestamp of a stored event (zone and segment boundaries are such values),
                    # typed and untyped
                    cut = rng.choice(stored_ts)
                    h.replay(focus, rng.choice(variants), tag=tag + ":since", since=cut)
                    h.replay(focus, rng.choice(types), tag=tag + ":since", since=stored_ts[-1])
                if others and rng.random() < 0.5:
                    h.replay(rng.choice(others), tag=tag)
            layout_script(h, rng, st, rng.randrange(4, 16), cp, clock_back=0.5 if i % 3 == 0 else 0.0,
                          preset="drain-then-clock-back" if i % 6 == 4 else None)
            yield h.done()


# ====================================================================== C05

class C05(Base):
    id = "C05"
    level = "fault_enumeration"
    opts = {}
    technique = "deterministic simulation: compaction on the simulated clock, answer-invariance oracle, enumerated crash points and errno faults"
    level_text = ("Seeded multi-type histories produce segment populations in which types share segments only partially; the real "
                  "background compactor is run by advancing the simulated clock, round after round. The full answer set (selection "
                  "and COUNT per type, REPLAY per context) is taken before, between and after rounds and after clean and kill "
                  "restarts and must not change (invariance oracle) nor disagree with the model. The compaction lifetime is re-run "
                  "with a crash at enumerated I/O events (output files, index tmp/fsync/rename, reclaim) and with errno faults on "
                  "compaction output, index replacement and reclaim; after restart the previous answers must still hold. The "
                  "hand-over is parked at each of its five steps (fixed histories of every batch) while reads are issued and while a "
                  "STORE+FLUSH publishes a new segment (index read-modify-write race).")
    clauses = {"lost", "duplicate-row", "foreign-row", "wrong-value", "count-vs-selection", "replay-lost", "replay-duplicate",
               "replay-foreign", "layout-variance", "frames", "read-error", "panic", "id-change", "restart-panic"}
    budgets = {"quick": {"histories": 12, "crash_limit": 40}, "thorough": {"histories": 80, "crash_limit": 100000}}

    @staticmethod
    def gen(seed, tier):
        for i in range(C05.budgets[tier]["histories"]):
            rng = rnd("C05", seed, i)
            cfg = {"shard_count": rng.choice([1, 1, 2]), "fill_factor": rng.choice([1, 2]), "event_per_zone": rng.choice([1, 2, 3]),
                   "segments_per_merge": rng.choice([2, 2, 3]), "wal": {"flush_each_write": True, "buffered": False}}
            h = H(seed, "C05", cfg, uid_salt=f"C05-{seed}-{i}")
            # every fourth history stores in bursts: several events of one context share a timestamp second
            # (compaction re-groups events and must not treat (context, second) as an identity)
            h.life(end="shutdown", tick_ms=rng.choice([0, 200]) if i % 4 == 2 else 1000)
            together = i % 3 == 0      # every third history: all types in every segment, so merge batches hold several types
            ntypes = rng.choice([2, 3]) if together else rng.choice([1, 2, 3])
            types = [f"t{j}" for j in range(ntypes)]
            for t in types:
                h.define(t, {"k": "int", "s": "string"})
            ctxs = [f"c{j}" for j in range(rng.choice([1, 2, 4]))]
            nseg = rng.randrange(3, 9)
            for s_ in range(nseg):
                # each segment gets a random subset of types so that batches drain inputs only partially
                present = list(types) if together else ([t for t in types if rng.random() < 0.7] or [rng.choice(types)])
                if together:
                    for t in types:
                        k = h.new_k()
                        h.store(t, rng.choice(ctxs), {"k": k, "s": rng.choice(["x", "y"])}, k=k)
                for _ in range(rng.randrange(0 if together else 1, 4)):
                    t = rng.choice(present)
                    k = h.new_k()
                    h.store(t, rng.choice(ctxs), {"k": k, "s": rng.choice(["x", "y"])}, k=k)
                h.flush()
            h.read_all(tag="before")
            h.end("shutdown")
            # the compaction lifetime (enumerated)
            h.life(end=rng.choice(["shutdown", "kill"]))
            rounds = rng.randrange(1, 4)
            gates = ["compact.output_written", "compact.before_commit", "compact.index_saved", "compact.list_updated", "compact.before_reclaim"]
            for r_ in range(rounds):
                # stratified: every fourth history races a flush against the parked hand-over in its first round, walking
                # through the five hand-over steps by history index (a small batch must not depend on drawing this by chance)
                forced = r_ == 0 and i % 4 == 1
                if forced or rng.random() < 0.35:
                    # park the compactor inside the hand-over and read in that intermediate state
                    g = gates[(i // 4) % 5] if forced else rng.choice(gates)
                    hid = h.hold_next(g)
                    h.compact()
                    h.read_all(tag=f"round{r_}:{g}")
                    if forced or rng.random() < 0.4:
                        # a flush publishes a new segment while the hand-over is parked (index read-modify-write race)
                        for _ in range(rng.randrange(1, 3)):
                            k = h.new_k()
                            h.store(rng.choice(types), rng.choice(ctxs), {"k": k, "s": "w"}, k=k)
                        h.flush()
                        h.read_all(tag=f"round{r_}:{g}:flushed")
                    h.release(hid)
                    h.barrier()
                else:
                    h.compact()
                h.read_all(tag=f"round{r_}")
                if rng.random() < 0.3:
                    k = h.new_k()
                    t = rng.choice(types)
                    h.store(t, rng.choice(ctxs), {"k": k, "s": "z"}, k=k)
                    h.flush()
            comp_life = len(h.plan["lifetimes"]) - 1
            h.life(end="shutdown")
            h.read_all(tag="after-restart")
            h.compact()
            h.read_all(tag="after-restart-compact")
            h.life(end="shutdown")
            h.read_all(tag="final")
            plan = h.done()
            plan["enumerate_life"] = comp_life
            yield plan

    @staticmethod
    def variants(plan, result, seed, tier):
        li = plan["enumerate_life"]
        info = result["io"][li] if li < len(result["io"]) else None
        if not info or "events" not in info:
            return
        rng = rnd("C05v", seed, result["id"])
        evs = [e for e in info["events"] if e[0] > info.get("startup_io", 0)]
        for k in engine.choose_crash_points(evs, 0, rng, C05.budgets[tier]["crash_limit"]):
            yield engine.crash_variant(plan, li, k)
        # errno faults on compaction output: one variant per (op, path class) seen after start-up
        classes = sorted({(op, pc) for _, op, pc in evs
                          if op in ("open", "write", "rename", "mkdir", "fsync", "unlink", "rmdir")
                          and (pc.startswith("seg") or pc in ("segment-dir", "reclaim", "shard-dir"))})
        rng.shuffle(classes)
        for op, pc in classes[: (6 if tier == "quick" else 60)]:
            p = copy.deepcopy(plan)
            p.pop("id", None)
            glob = {"segidx-tmp": "*segments.idx.tmp", "segidx": "*segments.idx", "segment-dir": "cols/*/*",
                    "reclaim": "cols/*/.reclaim*", "shard-dir": "cols/shard-*"}.get(pc, "cols/*/*/*." + pc[4:])
            p["lifetimes"][li]["io_faults"] = [{"id": f"e-{op}-{pc}", "op": op, "path": glob,
                                                 "nth": rng.choice([1, 1, 2, 3]), "errno": rng.choice(["EIO", "ENOSPC", "EACCES"])}]
            p["lifetimes"][li]["fault_after_io"] = info.get("startup_io", 0)
            p["opts"] = {"faulty": True}
            yield p
        # unreadable input: the n-th read-only open of one kind of segment file fails while the merge reads its inputs
        # (the rule is switched off at compact.output_written, so later queries are not hit): the run fails, the previous
        # answers must hold
        ro_globs = ["cols/*/*/*.zones", "cols/*/*/*_k.col", "cols/*/*/*_s.col", "cols/*/*/*_timestamp.col",
                    "cols/*/*/*_context_id.zfc", "cols/*/*/*_event_type.col"]
        combos = [("cols/*/*/*.zones", 1), ("cols/*/*/*_k.col", 1)] + \
                 [(rng.choice(ro_globs), rng.choice([1, 2, 3, 5])) for _ in range(2 if tier == "quick" else 24)]
        for glob, nth in combos:
            p = copy.deepcopy(plan)
            p.pop("id", None)
            p["lifetimes"][li]["io_faults"] = [{"id": "ro-input", "op": "open_ro", "path": glob,
                                                 "nth": nth, "errno": rng.choice(["EIO", "EACCES", "EMFILE"]),
                                                 "until_gate": "compact.output_written"}]
            p["opts"] = {"faulty": True}
            yield p


# ====================================================================== C12

HOSTILE_CTX = ["a", "A", "a ", " a", "ctx-1", "ctx_1", "ctx:1", "ctx/1", "user:ext:42", "ünïcode", "日本語", "x" * 200,
               "CTX-1", "ctx-1 ", "-", "a.b", "a,b", "'q'", "tab\tx", "c0", "c 0", "C0", "ﬀ", "ａ"]


class C12(Base):
    id = "C12"
    technique = "deterministic simulation: histories with restarts over hostile context ids; shard-tag stability + scoped/unscoped read oracle"
    level_text = ("Seeded histories over context ids from a hostile pool (very long, non-ASCII, differing only in case or whitespace) "
                  "and shard counts 1-5, with clean and kill restarts between STOREs to the same context. The shard tag in the event "
                  "ids of one context must be constant across all lifetimes; FOR <ctx> must return exactly that context's events; an "
                  "unscoped query must return the union over all shards (also when some shards hold only passive or no data).")
    clauses = {"shard-moved", "lost", "duplicate-row", "foreign-row", "query-missing", "query-extra", "wrong-value", "frames",
               "read-error", "panic", "wal-shard", "order-slice", "order-extra"}
    budgets = {"quick": {"histories": 100}, "thorough": {"histories": 20000}}

    @staticmethod
    def gen(seed, tier):
        for i in range(C12.budgets[tier]["histories"]):
            rng = rnd("C12", seed, i)
            cfg = {"shard_count": rng.choice([1, 2, 3, 4, 5]), "fill_factor": rng.choice([1, 2, 3]), "event_per_zone": rng.choice([1, 2]),
                   "segments_per_merge": 2, "wal": {"flush_each_write": True, "buffered": False}}
            h = H(seed, "C12", cfg, uid_salt=f"C12-{seed}-{i}")
            h.life(end="shutdown")
            h.define("t0", {"k": "int", "s": "string"})
            ctxs = rng.sample(HOSTILE_CTX, rng.randrange(2, 7))

            def st():
                k = h.new_k()
                h.store("t0", rng.choice(ctxs), {"k": k, "s": "v"}, k=k)

            def cp(tag):
                h.step({"op": "barrier", "meta": {"kind": "checkpoint", "tag": tag}})
                h.select("t0", tag=tag)
                for c in ctxs:
                    if rng.random() < 0.6:
                        h.query({"type": "t0", "ctx": c}, tag=tag)
            if i % 5 == 0 and cfg["shard_count"] >= 2:
                # one shard holds many flushed zones, another shard holds its matching events only in memory: a read that
                # pre-selects on-disk zones (ORDER BY + LIMIT) must still ask the shard that has nothing on disk
                from .model import shard_of
                ca = ctxs[0]
                others = [c for c in HOSTILE_CTX if shard_of(c, cfg["shard_count"]) != shard_of(ca, cfg["shard_count"])]
                cb = rng.choice(others)
                for _ in range(12 * cfg["event_per_zone"]):
                    k = h.new_k()
                    h.store("t0", ca, {"k": k, "s": "disk"}, k=k)
                h.flush()
                cap = cfg["fill_factor"] * cfg["event_per_zone"]
                for _ in range(max(1, cap - 1)):
                    k = h.new_k()
                    h.store("t0", cb, {"k": k, "s": "mem"}, k=k)
                h.step({"op": "barrier", "meta": {"kind": "checkpoint", "tag": "disk-vs-memory-shard"}})
                h.query({"type": "t0", "order": "k", "desc": True, "limit": 1}, kind="ordered", tag="disk-vs-memory-shard", feat="ord:mem-shard")
                h.query({"type": "t0", "ctx": cb, "order": "k", "desc": False, "limit": 1}, kind="ordered", tag="disk-vs-memory-shard", feat="ord:mem-shard")
                h.query({"type": "t0", "ctx": cb}, tag="disk-vs-memory-shard")
                h.select("t0", tag="disk-vs-memory-shard")
            layout_script(h, rng, st, rng.randrange(5, 18), cp, compaction=rng.random() < 0.3)
            yield h.done()


# ====================================================================== C18

class C18(Base):
    id = "C18"
    technique = "deterministic simulation: scripted wall clock (frozen, repeated, backward steps, also across kill-restart) + id uniqueness/order oracle"
    level_text = ("Seeded histories under scripted wall-clock behaviour: monotone, frozen (bursts within one millisecond, including "
                  "more than 4096 events on one shard so the sequence wraps), repeated values, backward steps inside a lifetime and "
                  "across a kill-restart (the id generator's state is not persisted), long gaps; with WAL recovery, flush and "
                  "compaction in between. Over the whole store: all ids distinct, per shard ids increase in apply order, ids after "
                  "recovery equal ids before, and the number of rows returned equals the number of events applied.")
    clauses = {"id-reuse", "id-change", "id-order", "lost", "duplicate-row", "foreign-row", "frames", "read-error", "panic"}
    budgets = {"quick": {"histories": 60, "bursts": 2}, "thorough": {"histories": 8000, "bursts": 40}}

    @staticmethod
    def gen(seed, tier):
        nb = C18.budgets[tier]["bursts"]
        for i in range(C18.budgets[tier]["histories"]):
            rng = rnd("C18", seed, i)
            burst = i < nb
            burst2 = burst and i % 2 == 1      # every second burst history has a second shard issuing ids in the same millisecond
            cfg = {"shard_count": (2 if burst2 else 1) if burst else rng.choice([1, 2, 3]), "fill_factor": 5000 if burst else rng.choice([1, 2, 4]),
                   "event_per_zone": 1 if burst else rng.choice([1, 2]), "segments_per_merge": 2,
                   "wal": {"flush_each_write": True, "buffered": burst, "buffer_size": 65536}}
            h = H(seed, "C18", cfg, uid_salt=f"C18-{seed}-{i}")
            mode = "frozen" if burst else rng.choice(["monotone", "frozen", "backward", "restart-back", "restart-same", "mixed"])
            tick = {"monotone": rng.choice([1, 5, 1000]), "frozen": 0}.get(mode, rng.choice([0, 1, 3]))
            h.life(end="shutdown", tick_ms=tick, spin_ms=1)
            h.define("t0", {"k": "int"})
            ctxs = ["c0"] if burst else [f"c{j}" for j in range(rng.choice([1, 2, 4]))]

            def st(**extra):
                k = h.new_k()
                return h.store("t0", rng.choice(ctxs), {"k": k}, k=k, **extra)
            if burst:
                for _ in range(4100 + rng.randrange(0, 60)):
                    st()
                if burst2:
                    # the sequence of shard A has wrapped into the next millisecond; shard B now issues its first ids for
                    # that millisecond while the clock stands still: ids must stay distinct across the store
                    from .model import shard_of
                    other = next(c for c in ("c1", "c2", "c3", "c4", "c5", "c6") if shard_of(c, 2) != shard_of("c0", 2))
                    for _ in range(rng.randrange(5, 40)):
                        k = h.new_k()
                        h.store("t0", other, {"k": k}, k=k)
                h.select("t0", tag="burst")
                h.end("kill")
                h.life(end="shutdown", tick_ms=0, wall_ms=BASE_WALL_MS, spin_ms=1)
                h.select("t0", tag="burst-recovered")
                for _ in range(5):
                    st()
                h.select("t0", tag="burst-more")
                yield h.done()
                continue
            nlife = rng.choice([1, 2, 3])
            for li in range(nlife):
                for _ in range(rng.randrange(3, 14)):
                    x = rng.random()
                    if mode in ("backward", "mixed") and x < 0.2:
                        st(wall_advance_ms=-rng.choice([1, 2, 50, 5000]))
                    elif x < 0.1:
                        st(wall_advance_ms=rng.choice([1, 1000, 86_400_000]))
                    elif x < 0.2:
                        h.flush()
                    elif x < 0.25:
                        h.compact()
                    else:
                        st()
                h.select("t0", tag=f"life{li}")
                if li < nlife - 1:
                    h.end(rng.choice(["kill", "shutdown"]))
                    prev_start = h.cur["wall_clock_ms"]
                    if mode == "restart-back":
                        nxt = prev_start - rng.choice([0, 1, 10, 60_000])
                    elif mode == "restart-same":
                        nxt = prev_start
                    elif mode == "mixed":
                        nxt = prev_start + rng.choice([-5, 0, 1, 3, 1_000_000])
                    else:
                        nxt = prev_start + 1_000_000
                    h.life(end="shutdown", tick_ms=tick, wall_ms=nxt, spin_ms=1)
                    h.select("t0", tag=f"recovered{li}")
            yield h.done()



# ====================================================================== C11

def with_snapshots(plan, every=1):
    """Insert a filesystem snapshot at the start of every lifetime and after every `every`-th command."""
    p = copy.deepcopy(plan)
    for life in p["lifetimes"]:
        steps = []
        steps.append({"op": "fs_snapshot", "meta": {"kind": "fs"}})
        n = 0
        for st in life["steps"]:
            steps.append(st)
            if st.get("op", "cmd") in ("cmd", "advance"):
                kind = (st.get("meta") or {}).get("kind")
                if kind in ("store", "flush", "advance", "define"):
                    n += 1
                    if n % every == 0:
                        steps.append({"op": "fs_snapshot", "meta": {"kind": "fs"}})
        life["steps"] = steps
        life["log_reads"] = True
    return p


class C11(Base):
    id = "C11"
    level = "fault_enumeration"
    technique = "deterministic simulation: the I/O seam as monitor (every filesystem mutation is an event) + snapshots, enumerated crash points"
    level_text = ("Histories of STORE/FLUSH/compaction/restart (as C01/C05, including empty flushes, restarts after compaction "
                  "emptied L0 and crashes that leave unpublished directories). The libc seam logs every mutation and every "
                  "read-only open below the data root; the oracle decodes each segments.idx that is renamed into place and "
                  "checks on every event that no file of a named segment is written, truncated, renamed or removed, that the "
                  "index only changes by tmp+rename, that directories are created under fresh ids, that no read touches a "
                  "left-over directory no index ever named, and - from content-hash snapshots after every step and after every "
                  "restart, at enumerated crash points - that every named segment has exactly the files and bytes written before "
                  "it was published.")
    clauses = {"mutated-published", "removed-while-named", "index-in-place", "index-undecodable", "index-names-missing-dir",
               "dir-reuse", "read-unpublished", "named-but-absent", "incomplete-segment", "panic", "restart-panic"}
    budgets = {"quick": {"histories": 8, "crash_limit": 50}, "thorough": {"histories": 120, "crash_limit": 100000}}
    opts = {"segments": True, "rebase_after_restart": True}

    @staticmethod
    def nontrivial(plan, res):
        return res["stats"].get("fs_snapshots", 0) > 2 and res["stats"].get("store_acked", 0) > 0

    @staticmethod
    def gen(seed, tier):
        n = C11.budgets[tier]["histories"]
        for i in range(n):
            rng = rnd("C11", seed, i)
            cfg = swarm_config(rng, durable=True)
            h = H(seed, "C11", cfg, uid_salt=f"C11-{seed}-{i}")
            types = [f"t{j}" for j in range(rng.choice([1, 2]))]
            ctxs = [f"c{j}" for j in range(rng.choice([1, 2, 4]))]
            nlife = rng.choice([2, 3])
            for li in range(nlife):
                h.life(end=rng.choice(["shutdown", "kill"]))
                if li == 0:
                    for t in types:
                        h.define(t, {"k": "int", "s": "string"})
                gen_ops(h, rng, rng.randrange(4, 12), types, ctxs, p_flush=0.25, p_compact=0.15, p_read=0.1)
                if rng.random() < 0.3:
                    h.flush()
                    h.flush()      # empty flush
            last_work = len(h.plan["lifetimes"]) - 1
            h.life(end="shutdown")
            h.read_all(tag="verify", replay=False)
            gen_ops(h, rng, rng.randrange(2, 6), types, ctxs, p_flush=0.3, p_compact=0.1, p_read=0.0)
            h.flush()
            h.read_all(tag="verify2", replay=False)
            plan = with_snapshots(h.done())
            plan["enumerate_life"] = last_work
            yield plan

    @staticmethod
    def variants(plan, result, seed, tier):
        li = plan["enumerate_life"]
        info = result["io"][li] if li < len(result["io"]) else None
        if not info or "events" not in info:
            return
        rng = rnd("C11v", seed, result["id"])
        for k in engine.choose_crash_points(info["events"], 0, rng, C11.budgets[tier]["crash_limit"]):
            yield engine.crash_variant(plan, li, k)
        # errno faults on the flush / compaction output, the index replacement and the reclaim: a failed operation must not
        # leave the index or the live list naming an incomplete segment, nor touch a published one
        classes = sorted({(op, pc) for _, op, pc in info["events"]
                          if op in ("open", "write", "rename", "mkdir", "fsync", "unlink", "rmdir")
                          and (pc.startswith("seg") or pc in ("segment-dir", "reclaim", "shard-dir"))})
        rng.shuffle(classes)
        # the data-bearing files first (a small batch must always fail a column write and a column sync)
        first = [c for c in classes if c in (("write", "seg-col"), ("fsync", "seg-col"), ("write", "seg-zfc"), ("write", "seg-zones"))]
        classes = first + [c for c in classes if c not in first]
        for op, pc in classes[: (8 if tier == "quick" else 60)]:
            p = copy.deepcopy(plan)
            p.pop("id", None)
            glob = {"segidx-tmp": "*segments.idx.tmp", "segidx": "*segments.idx", "segment-dir": "cols/*/*",
                    "reclaim": "cols/*/.reclaim*", "shard-dir": "cols/shard-*"}.get(pc, "cols/*/*/*." + pc[4:])
            p["lifetimes"][li]["io_faults"] = [{"id": f"e-{op}-{pc}", "op": op, "path": glob,
                                                 "nth": rng.choice([1, 2, 3, 5]) if (op, pc) != ("write", "seg-col") else rng.choice([2, 4, 6]),
                                                 "errno": rng.choice(["EIO", "ENOSPC", "EACCES"])}]
            p["opts"] = dict(p.get("opts") or {}, faulty=True)
            yield p



# ====================================================================== query workloads (C02, C07, C09, C10)

import datetime as _dt


def iso(ts):
    return _dt.datetime.fromtimestamp(ts, _dt.timezone.utc).strftime("%Y-%m-%dT%H:%M:%SZ")


Q_SCHEMA = {"k": "int", "n": "int", "s": "string", "e": ["a", "b", "c"], "o": "int | null", "d": "datetime"}
S_POOL = ["x", "y", "zed", "alpha", "beta"]
D_BASE = 1_735_689_600   # 2025-01-01T00:00:00Z


def q_payload(k, rng):
    return {"k": k, "n": rng.choice([-3, -1, 0, 1, 2, 2, 5, 9, 40]), "s": rng.choice(S_POOL), "e": rng.choice(["a", "b", "c"]),
            "o": rng.choice([None, None, 0, 1, 7, -2]), "d": D_BASE + rng.choice([0, 1, 3599, 3600, 86399, 86400, 200000, 2_700_000])}


def gen_atom(rng, feats):
    f = rng.choice(feats)
    if f == "n":
        if rng.random() < 0.2:
            return ("in", "n", rng.sample([-3, -1, 0, 1, 2, 5, 9, 40, 77], rng.randrange(1, 4)))
        return ("cmp", "n", rng.choice(["=", "!=", "<", "<=", ">", ">="]), rng.choice([-3, -1, 0, 1, 2, 5, 9, 40, -100, 100, 3]))
    if f == "k":
        return ("cmp", "k", rng.choice(["=", "!=", "<", "<=", ">", ">="]), rng.randrange(0, 30))
    if f == "s":
        if rng.random() < 0.25:
            return ("in", "s", rng.sample(S_POOL + ["nope"], rng.randrange(1, 4)))
        return ("cmp", "s", rng.choice(["=", "!="]), rng.choice(S_POOL + ["nope"]))
    if f == "e":
        if rng.random() < 0.25:
            return ("in", "e", rng.sample(["a", "b", "c", "zz"], rng.randrange(1, 3)))
        return ("cmp", "e", rng.choice(["=", "!="]), rng.choice(["a", "b", "c", "zz"]))
    if f == "o":
        return ("cmp", "o", rng.choice(["=", "<", ">", ">=", "<="]), rng.choice([0, 1, 7, -2, 3]))
    if f == "d":
        return ("cmp", "d", rng.choice(["<", "<=", ">", ">=", "="]), D_BASE + rng.choice([0, 1, 3600, 86400, 200000, 5_000_000]))
    raise ValueError(f)


def gen_pred(rng, feats, depth=0):
    x = rng.random()
    if depth >= 2 or x < 0.45:
        return gen_atom(rng, feats)
    if x < 0.65:
        return ("and", gen_pred(rng, feats, depth + 1), gen_pred(rng, feats, depth + 1))
    if x < 0.85:
        return ("or", gen_pred(rng, feats, depth + 1), gen_pred(rng, feats, depth + 1))
    return ("not", gen_pred(rng, feats, depth + 1))


def query_history(prop, seed, i, make_queries, n_events=(6, 24), feats=None, shards=(1, 2, 3), schema=None, payload=None):
    rng = rnd(prop, seed, i)
    cfg = {"shard_count": rng.choice(shards), "fill_factor": rng.choice([1, 2, 3]), "event_per_zone": rng.choice([1, 2, 3, 4]),
           "segments_per_merge": rng.choice([2, 3]), "wal": {"flush_each_write": True, "buffered": False}}
    h = H(seed, prop, cfg, uid_salt=f"{prop}-{seed}-{i}")
    h.life(end="shutdown")
    h.define("q", schema or Q_SCHEMA)
    ctxs = [f"c{j}" for j in range(rng.choice([1, 2, 4]))]
    queries = make_queries(rng, ctxs)

    def st():
        k = h.new_k()
        h.store("q", rng.choice(ctxs), (payload or q_payload)(k, rng), k=k)

    def cp(tag):
        h.step({"op": "barrier", "meta": {"kind": "checkpoint", "tag": tag}})
        for item in queries:
            kind, q = item[0], item[1]
            h.query(q, kind=kind, tag=tag, feat=item[2] if len(item) > 2 else None)
    layout_script(h, rng, st, rng.randrange(*n_events), cp)
    return h.done()


ALL_ATOM_KINDS = ([("n", op) for op in ["=", "!=", "<", "<=", ">", ">=", "IN"]] + [("k", op) for op in ["=", "!=", "<", ">="]]
                  + [("s", op) for op in ["=", "!=", "IN"]] + [("e", op) for op in ["=", "!=", "IN"]]
                  + [("o", op) for op in ["=", "<", "<=", ">", ">="]] + [("d", op) for op in ["<", "<=", ">", ">=", "="]])


def atom_of_kind(rng, field, op):
    lits = {"n": [-3, -1, 0, 1, 2, 5, 9, 40, -100, 100, 3], "k": list(range(0, 30)), "s": S_POOL + ["nope"],
            "e": ["a", "b", "c", "zz"], "o": [0, 1, 7, -2, 3],
            "d": [D_BASE + x for x in [0, 1, 3600, 86400, 200000, 5_000_000]]}[field]
    if op == "IN":
        return ("in", field, rng.sample(lits, rng.randrange(1, 4)))
    return ("cmp", field, op, rng.choice(lits))


def gen_clean_pred(rng, kinds, depth=0):
    x = rng.random()
    if depth >= 2 or x < 0.4:
        return atom_of_kind(rng, *rng.choice(kinds))
    if x < 0.7:
        return ("and", gen_clean_pred(rng, kinds, depth + 1), gen_clean_pred(rng, kinds, depth + 1))
    return ("or", gen_clean_pred(rng, kinds, depth + 1), gen_clean_pred(rng, kinds, depth + 1))


class C02(Base):
    id = "C02"
    technique = "deterministic simulation: one history walked through storage layouts (memory, flushed, compacted, clean/kill restart); model + layout-invariance oracles"
    level_text = ("Seeded schemas/event multisets and typed predicates (=, !=, <, <=, >, >=, IN, AND, OR, NOT, parentheses, FOR, "
                  "SINCE) rendered to command text; the same query set is asked at every layout checkpoint of one history (all in "
                  "memory, after FLUSH, after compaction rounds, after clean restart, after kill-restart; zone sizes 1-4 so zones mix "
                  "matching and non-matching rows; 1-3 shards). Model oracle: returned set == events satisfying the predicate. "
                  "Invariance oracle: the set of events returned for the same question and the same history is identical at every "
                  "checkpoint. Single-atom probes attribute a failure to one (field type, operator) pair; compound predicates are "
                  "drawn from the atoms whose probes hold.")
    clauses = {"query-missing", "query-extra", "foreign-row", "duplicate-row", "layout-variance", "frames", "read-error", "panic"}
    budgets = {"quick": {"histories": 150}, "thorough": {"histories": 15000}}
    CLEAN = None   # atom kinds usable in compound predicates (None = all, used for classification runs)

    @staticmethod
    def gen(seed, tier):
        def mk(rng, ctxs):
            qs = []
            kinds = rng.sample(ALL_ATOM_KINDS, 6)
            for field, op in kinds:
                a = atom_of_kind(rng, field, op)
                if rng.random() < 0.2:
                    qs.append(("query", {"type": "q", "where": ("not", a)}, f"not:{field}:{op}"))
                else:
                    qs.append(("query", {"type": "q", "where": a}, f"cmp:{field}:{op}"))
            clean = C02.CLEAN if C02.CLEAN is not None else ALL_ATOM_KINDS
            for _ in range(rng.randrange(2, 5)):
                q = {"type": "q", "where": gen_clean_pred(rng, clean)}
                feat = "compound"
                if rng.random() < 0.3:
                    q["ctx"] = rng.choice(ctxs)
                    feat = "compound+for"
                qs.append(("query", q, feat))
            qs.append(("query", {"type": "q", "ctx": rng.choice(ctxs)}, "for"))
            qs.append(("query", {"type": "q"}, "all"))
            return qs
        for i in range(C02.budgets[tier]["histories"]):
            yield query_history("C02", seed, i, mk)



# ====================================================================== C07

V_SCHEMA = {"k": "int", "i": "int", "u": "u64", "f": "float", "s": "string", "b": "bool", "e": ["red", "green", "Blue"],
            "dt": "datetime", "d": "date", "os": "string | null", "oi": "int | null",
            "odt": "datetime | null", "od": "date | null", "of": "float | null", "ob": "bool | null"}

V_POOLS = {
    "i": [("i:small", 0), ("i:small", -1), ("i:small", 42), ("i:max", 9223372036854775807), ("i:min", -9223372036854775808),
          ("i:big", 4611686018427387904), ("i:2^53+1", 9007199254740993)],
    "u": [("u:small", 0), ("u:small", 7), ("u:gt_i64max", 9223372036854775808), ("u:max", 18446744073709551615)],
    "f": [("f:frac", 1.5), ("f:frac", -2.25), ("f:integral", 3.0), ("f:tiny", 1e-9), ("f:huge", 1e300), ("f:zero", 0.0), ("f:neg0", -0.0)],
    "s": [("s:plain", "x"), ("s:plain", "hello world"), ("s:empty", ""), ("s:numeric", "17"), ("s:numeric", "-3.5"),
          ("s:boolish", "true"), ("s:nullish", "null"), ("s:unicode", "héllo wörld ✓ 日本"), ("s:long", "L" * 3000),
          ("s:space", " lead and trail "), ("s:jsonish", "{\"a\":1}"), ("s:quote", "it's")],
    "b": [("b:true", True), ("b:false", False)],
    "e": [("e:variant", "red"), ("e:variant", "green"), ("e:variant", "Blue")],
    "dt": [("dt:epoch_s", 1735787045), ("dt:iso", "2025-01-02T03:04:05Z"), ("dt:epoch_ms", 1735787045000)],
    "d": [("d:iso", "2025-01-02"), ("d:epoch_s", 1735776000)],
    "os": [("os:null", None), ("os:plain", "v"), ("os:empty", ""), ("os:absent", "__ABSENT__")],
    "oi": [("oi:null", None), ("oi:value", 5), ("oi:zero", 0), ("oi:absent", "__ABSENT__")],
    # nullable typed fields: the physical column type must be the one of the non-nullable spelling
    "odt": [("odt:null", None), ("odt:epoch_s", 1735689600), ("odt:iso", "2025-01-02T03:04:05Z"), ("odt:absent", "__ABSENT__")],
    "od": [("od:null", None), ("od:iso", "2025-01-02"), ("od:epoch_s", 1735776000), ("od:absent", "__ABSENT__")],
    "of": [("of:null", None), ("of:frac", 2.5), ("of:integral", 4.0), ("of:absent", "__ABSENT__")],
    "ob": [("ob:null", None), ("ob:true", True), ("ob:false", False), ("ob:absent", "__ABSENT__")],
}
V_NORMAL = {"dt:iso": 1735787045, "dt:epoch_ms": 1735787045, "d:iso": 1735776000, "odt:iso": 1735787045, "od:iso": 1735776000}
V_PLAIN = {"i": 1, "u": 1, "f": 0.5, "s": "p", "b": True, "e": "red", "dt": 1735787045, "d": 1735776000, "os": "p", "oi": 1,
           "odt": 1735787045, "od": 1735776000, "of": 0.5, "ob": True}


class C07(Base):
    id = "C07"
    technique = "deterministic simulation: value round-trip across storage tiers (memory, WAL recovery, flushed, compacted, restart) with per-value-class attribution"
    level_text = ("Every STORE carries one edge value (per field type: empty/long/non-ASCII/number-looking/'null'/'true' strings, i64 "
                  "min/max, u64 above i64::MAX, integral/tiny/huge floats, booleans, enum variants, nulls and absent optionals, ISO and "
                  "epoch times) in one field and plain values elsewhere, mixed inside one zone/segment; the history walks the events "
                  "through memory, kill-restart before any flush (WAL JSON path), FLUSH, compaction (merge path) and restarts, and "
                  "selection/REPLAY/RETURN are checked cell by cell against the stored (normalised) value at every checkpoint. "
                  "A failure is attributed to the value class of the event that came back wrong.")
    clauses = {"wrong-value", "lost", "duplicate-row", "foreign-row", "layout-variance", "return-columns", "frames", "read-error", "panic",
               "rejected-valid"}
    budgets = {"quick": {"histories": 100}, "thorough": {"histories": 20000}}

    @staticmethod
    def gen(seed, tier):
        for i in range(C07.budgets[tier]["histories"]):
            rng = rnd("C07", seed, i)
            cfg = {"shard_count": rng.choice([1, 2]), "fill_factor": rng.choice([1, 2, 3]), "event_per_zone": rng.choice([1, 2, 4]),
                   "segments_per_merge": 2, "wal": {"flush_each_write": True, "buffered": False}}
            h = H(seed, "C07", cfg, uid_salt=f"C07-{seed}-{i}")
            h.life(end="shutdown")
            h.define("v", V_SCHEMA)
            ctxs = ["c0", "c1"]
            # a few value classes per history so that a known-bad class does not poison every history
            fields = rng.sample(list(V_POOLS), rng.choice([1, 2, 3]))
            classes = {}

            def st():
                k = h.new_k()
                f = rng.choice(fields)
                cls, val = rng.choice(V_POOLS[f])
                payload = dict(V_PLAIN)
                payload["k"] = k
                stored = dict(payload)
                if val == "__ABSENT__":
                    del payload[f]
                    stored[f] = None
                else:
                    payload[f] = val
                    stored[f] = V_NORMAL.get(cls, val)
                classes[k] = cls
                h.store("v", rng.choice(ctxs), payload, k=k, stored=stored, vclass=cls)

            def cp(tag):
                h.step({"op": "barrier", "meta": {"kind": "checkpoint", "tag": tag}})
                h.select("v", tag=tag)
                h.replay(rng.choice(ctxs), "v", tag=tag)
                if rng.random() < 0.5:
                    ret = rng.sample([f for f in V_SCHEMA if f != "k"], rng.randrange(1, 4)) + ["k"]
                    h.query({"type": "v", "ret": ret}, tag=tag, feat="return")
            # first: WAL path (kill before any flush) for a prefix of the events
            if rng.random() < 0.4:
                for _ in range(rng.randrange(1, 4)):
                    st()
                cp("mem")
                h.end("kill")
                h.life(end="shutdown")
                h.select("v", tag="rebase")
                cp("wal-recovered")
            layout_script(h, rng, st, rng.randrange(3, 10), cp)
            yield h.done()


# ====================================================================== C09

A_SCHEMA = {"k": "int", "amt": "int", "qty": "int", "cur": ["EUR", "USD", "GBP"], "tag": "string", "note": "string | null", "at": "datetime"}


def a_payload(k, rng):
    return {"k": k, "amt": rng.choice([-5, 0, 1, 10, 10, 25, 1000]), "qty": rng.choice([1, 2, 3]), "cur": rng.choice(["EUR", "USD", "GBP"]),
            "tag": rng.choice(["a", "b", "c"]), "note": rng.choice([None, "x", "y"]),
            "at": D_BASE + rng.choice([0, 10, 3599, 3600, 86399, 86400, 7 * 86400, 40 * 86400])}


C09_SCHEMA = dict(A_SCHEMA, opt="int | null")


def c09_payload(k, rng):
    p = a_payload(k, rng)
    p["opt"] = rng.choice([None, None, None, 3, 5, 9, -2])
    return p


class C09(Base):
    id = "C09"
    technique = "deterministic simulation: aggregates vs fold over the selection issued in the same frozen state, across shards/tiers; feature-level attribution"
    level_text = ("Seeded event multisets split by the history over shards and over memory / flushed / compacted / recovered tiers; for "
                  "every aggregate query (COUNT, COUNT f, COUNT UNIQUE, TOTAL, AVG, MIN, MAX over int and nullable int; BY 0-2 fields incl. nullable and enum; PER "
                  "hour/day/week/month on the timestamp or a payload datetime; WHERE / FOR; LIMIT) the selection with the same filter is "
                  "issued first in the same state, and the aggregate table must equal the fold of each metric over exactly those rows "
                  "(and over the model), each selected event in exactly one group, LIMIT (and OFFSET) only deciding the number of groups; tables must "
                  "be identical at every layout checkpoint of the same history.")
    clauses = {"agg-vs-selection", "agg-vs-model", "agg-duplicate-group", "layout-variance", "frames", "read-error", "panic"}
    budgets = {"quick": {"histories": 120}, "thorough": {"histories": 20000}}

    @staticmethod
    def gen(seed, tier):
        def mk(rng, ctxs):
            qs = []
            for _ in range(rng.randrange(3, 7)):
                base = {"type": "q"}
                feat = []
                x = rng.random()
                if x < 0.2:
                    base["ctx"] = rng.choice(ctxs)
                    feat.append("FOR")
                elif x < 0.45:
                    base["where"] = atom_of_kind(rng, "n", rng.choice(["=", "<", ">=", "IN"])) if False else ("cmp", "amt", rng.choice(["=", "<", ">", ">="]), rng.choice([0, 10, 25]))
                    feat.append("WHERE")
                mk_ = rng.choice(["COUNT", "COUNT", "COUNTF", "UNIQUE", "TOTAL", "AVG", "MIN", "MAX", "MULTI"])
                if mk_ == "COUNT":
                    metrics = [("COUNT", None)]
                elif mk_ == "COUNTF":
                    metrics = [("COUNT", rng.choice(["note", "amt", "opt"]))]
                elif mk_ == "UNIQUE":
                    metrics = [("COUNT UNIQUE", rng.choice(["context_id", "tag", "cur"]))]
                elif mk_ == "MULTI":
                    metrics = [("COUNT", None), ("TOTAL", "amt"), ("AVG", "amt"), ("MIN", rng.choice(["amt", "opt"])), ("MAX", rng.choice(["qty", "opt"]))]
                else:
                    # `opt` is a nullable integer: partial aggregates of a group that saw only nulls meet partials with values
                    metrics = [(mk_, rng.choice(["amt", "qty", "opt"]))]
                feat.append(mk_)
                q = dict(base, metrics=metrics)
                y = rng.random()
                if y < 0.35:
                    q["by"] = [rng.choice(["cur", "tag", "qty"])]
                    feat.append("BY:" + q["by"][0])
                elif y < 0.45:
                    q["by"] = ["cur", "tag"]
                    feat.append("BY2")
                elif y < 0.55:
                    q["by"] = ["note"]
                    feat.append("BY:nullable")
                z = rng.random()
                if z < 0.2:
                    q["per"] = rng.choice(["HOUR", "DAY", "WEEK", "MONTH"])
                    q["per_using"] = "at"
                    feat.append("PER:" + q["per"])
                elif z < 0.27:
                    q["per"] = rng.choice(["HOUR", "DAY"])
                    feat.append("PERts:" + q["per"])
                if (q.get("by") or q.get("per")) and rng.random() < 0.25:
                    q["limit"] = rng.choice([1, 2, 100])
                    feat.append("LIMIT")
                    if rng.random() < 0.4:
                        # OFFSET skips groups (which ones is unspecified without an order): the number of groups is decided
                        q["offset"] = rng.choice([1, 1, 2, 50])
                        feat.append("OFFSET")
                qs.append(("query", dict(base), "sel:" + "+".join(f for f in feat if f in ("FOR", "WHERE"))))
                qs.append(("agg", q, "agg:" + "+".join(feat)))
            return qs
        for i in range(C09.budgets[tier]["histories"]):
            yield query_history("C09", seed, i, mk, schema=C09_SCHEMA, payload=c09_payload)


# ====================================================================== C10

# sort keys beyond 2^53: neighbouring integers that collapse when compared through f64 (ids, nanosecond stamps)
C10_SCHEMA = dict(A_SCHEMA, big="int")
BIG_KEYS = [2 ** 53 + d for d in (0, 1, 2, 3, 5)] + [2 ** 62 + 1, 2 ** 62 + 2, -(2 ** 53) - 1, -(2 ** 53) - 2, 7]


def c10_payload(k, rng):
    p = a_payload(k, rng)
    p["big"] = rng.choice(BIG_KEYS)
    return p


class C10(Base):
    id = "C10"
    technique = "deterministic simulation: ORDER BY/LIMIT/OFFSET slices vs model across shards and tiers; sort-key multiset oracle"
    level_text = ("Seeded data with duplicate and missing sort keys (numeric incl. neighbouring integers beyond 2^53, string, time, nullable), ascending/descending, n and m "
                  "from {0,1,..,beyond the result size}, with WHERE/FOR, over >=2 shards, tiers mixed by the history and zone sizes 1-4. "
                  "Returned sort keys must be sorted under the typed order, the multiset of sort keys must equal positions m..m+n of the "
                  "model's order (ties free), LIMIT without ORDER BY must return min(n, matches) distinct matching events, OFFSET without "
                  "LIMIT must be rejected, and answers must be identical at every layout checkpoint.")
    clauses = {"order-unsorted", "order-slice", "order-extra", "limit-count", "query-extra", "duplicate-row", "foreign-row",
               "layout-variance", "offset-without-limit", "frames", "read-error", "panic"}
    budgets = {"quick": {"histories": 120}, "thorough": {"histories": 20000}}

    @staticmethod
    def gen(seed, tier):
        def mk(rng, ctxs):
            qs = []
            for _ in range(rng.randrange(3, 7)):
                q = {"type": "q"}
                feat = []
                x = rng.random()
                if x < 0.15:
                    q["ctx"] = rng.choice(ctxs)
                    feat.append("FOR")
                elif x < 0.35:
                    q["where"] = ("cmp", "amt", rng.choice(["=", "<", ">="]), rng.choice([0, 10, 25]))
                    feat.append("WHERE")
                if rng.random() < 0.8:
                    q["order"] = rng.choice(["amt", "amt", "qty", "tag", "at", "note", "k", "timestamp", "big", "big"])
                    q["desc"] = rng.random() < 0.5
                    feat.append("ORDER:" + q["order"] + (":desc" if q["desc"] else ":asc"))
                    if rng.random() < 0.7:
                        q["limit"] = rng.choice([0, 1, 2, 3, 5, 50])
                        feat.append("LIMIT0" if q["limit"] == 0 else "LIMIT")
                        if rng.random() < 0.5:
                            q["offset"] = rng.choice([0, 1, 2, 4, 40])
                            feat.append("OFFSET")
                    qs.append(("ordered", q, "ord:" + "+".join(feat)))
                else:
                    q["limit"] = rng.choice([0, 1, 2, 5, 50])
                    feat.append("LIMIT0" if q["limit"] == 0 else "LIMIT")
                    qs.append(("query", q, "lim:" + "+".join(feat)))
            qs.append(("expect_error", {"type": "q", "offset": 1}, "offset-without-limit"))
            return qs
        for i in range(C10.budgets[tier]["histories"]):
            if i % 10 == 3:
                yield C10.deep_pages(seed, i)
                continue
            yield query_history("C10", seed, i, mk, schema=C10_SCHEMA, payload=c10_payload, shards=(2, 3, 1))

    @staticmethod
    def deep_pages(seed, i):
        """Fixed-shape history: a sort key that grows with ingestion, two-row zones, ~50 rows flushed, then pages deep
        into the order (OFFSET far beyond 10 x LIMIT). The coverage of a top-k pre-selection must be sized by
        LIMIT + OFFSET. (Own feature tag: on this data shape the unchanged planner is exact, so the open finding
        about the heuristic pre-selection does not apply and its signature does not cover these reads.)"""
        rng = rnd("C10deep", seed, i)
        cfg = {"shard_count": rng.choice([1, 2]), "fill_factor": 2, "event_per_zone": 2, "segments_per_merge": 3,
               "wal": {"flush_each_write": True, "buffered": False}}
        h = H(seed, "C10", cfg, uid_salt=f"C10-{seed}-{i}")
        h.life(end="shutdown")
        h.define("q", C10_SCHEMA)
        ctxs = ["c0"] if cfg["shard_count"] == 1 else ["c0", "c1", "c2"]
        n = rng.randrange(44, 56)
        for _ in range(n):
            k = h.new_k()
            p = c10_payload(k, rng)
            h.store("q", rng.choice(ctxs), p, k=k)
        h.flush()
        h.step({"op": "barrier", "meta": {"kind": "checkpoint", "tag": "deep"}})
        for m in rng.sample([0, 3, 11, 17, 23, 31, 41, 44, 200], 6):
            for desc in (False, True):
                h.query({"type": "q", "order": "k", "desc": desc, "limit": 2, "offset": m}, kind="ordered", tag="deep",
                        feat="deep-page:" + ("desc" if desc else "asc"))
        return h.done()



# ====================================================================== C13

import hmac as _hmac, hashlib as _hashlib


def sign(key, msg):
    return _hmac.new(key.encode(), msg.encode(), _hashlib.sha256).hexdigest()


ADMIN, ADMIN_KEY = "admin", "adminkey-0123456789"
ROLE_READ = {"admin", "read-only", "viewer", "editor"}
ROLE_WRITE = {"admin", "editor", "write-only"}


class AuthModel:
    def __init__(self):
        self.users = {ADMIN: {"key": ADMIN_KEY, "active": True, "roles": ["admin"]}}
        self.perms = {}      # (user, type) -> {"read": bool, "write": bool}

    def is_admin(self, u):
        return "admin" in self.users[u]["roles"]

    # A per-type permission entry is more specific than a role (documented in the engine's permission cache and
    # required by "revoking a permission takes effect for the next request"): REVOKE READ,WRITE leaves an all-false
    # entry that denies the type even to a user whose role would allow it; an entry that exists decides WRITE.
    def can_read(self, u, t):
        p = self.perms.get((u, t))
        if p:
            if p["read"]:
                return True
            if not p["write"]:
                return False
        return bool(set(self.users[u]["roles"]) & ROLE_READ)

    def can_write(self, u, t):
        p = self.perms.get((u, t))
        if p:
            return p["write"]
        return bool(set(self.users[u]["roles"]) & ROLE_WRITE)


class C13(Base):
    id = "C13"
    technique = "deterministic simulation: real auth gate + dispatcher driven over simulated connections, grant/revoke/expiry histories on the simulated clock; access-control model oracle"
    level_text = ("bypass_auth=false with a bootstrap admin. Simulated connections run the listener's real authentication gate "
                  "(check_auth) and the real dispatcher. An admin creates users (ids include the reserved-looking ones the system "
                  "accepts), assigns roles or per-type permissions, grants and revokes; users issue every command kind (STORE, QUERY, "
                  "REPLAY, sequence query, REMEMBER, SHOW, FLUSH, DEFINE, user/permission management) through the three "
                  "authentication forms with valid, wrong-key, truncated, replayed-for-another-command and unknown-user credentials, "
                  "with session tokens across simulated-clock expiry and across key revocation, payloads containing ' TOKEN ' and "
                  "':' substrings, and restarts (permissions are persisted). A small access-control model decides for every request "
                  "whether it may execute; a request the model denies must be answered with an error (it must not execute).")
    clauses = {"unauthenticated-executed", "unauthorized-read", "unauthorized-write", "nonadmin-admin-op", "revoked-still-works",
               "expired-token-works", "panic"}
    budgets = {"quick": {"histories": 80}, "thorough": {"histories": 40000}}
    opts = {}

    @staticmethod
    def nontrivial(plan, res):
        return res["stats"].get("auth_requests", 0) > 5

    @staticmethod
    def gen(seed, tier):
        for i in range(C13.budgets[tier]["histories"]):
            rng = rnd("C13", seed, i)
            expiry = 60
            cfg = {"shard_count": rng.choice([1, 2]), "fill_factor": 2, "event_per_zone": 2, "segments_per_merge": 2,
                   "wal": {"flush_each_write": True, "buffered": False},
                   "auth": {"bypass_auth": False, "initial_admin_user": ADMIN, "initial_admin_key": ADMIN_KEY,
                            "session_token_expiry_seconds": expiry}}
            h = H(seed, "C13", cfg, uid_salt=f"C13-{seed}-{i}")
            # sub-second ticks: several auth mutations of one user share a wall-clock second (the auth log is
            # replayed with latest-timestamp-wins at start-up)
            tick = rng.choice([1000, 1000, 300, 0])
            h.life(end="shutdown", tick_ms=tick)
            m = AuthModel()
            types = ["ta", "tb"]
            conn_state = {}     # conn -> {"user": u, "token_step": n, "token_wall": ms}
            next_conn = [1]

            def issue(user, cmd, meta, form=None, bad=None, conn=None):
                """Render `cmd` with an authentication form; returns the step index."""
                form = form or rng.choice(["inline", "conn", "token"])
                if form == "token" and bad in ("wrongkey", "othercmd"):
                    bad = "truncated"     # the only way to spoil a token request is the token itself
                key = m.users[user]["key"] if user in m.users else "nokey"
                if bad == "wrongkey":
                    key = key + "x"
                if form == "inline" or bad == "unknown":
                    c = conn if conn is not None else 100 + next_conn[0]
                    next_conn[0] += 1
                    sig = sign(key, cmd)
                    if bad == "truncated":
                        sig = sig[:40]
                    if bad == "othercmd":
                        sig = sign(key, "PING")
                    text = f"{user}:{sig}:{cmd}"
                    meta = dict(meta, form="inline", bad=bad, user=user)
                    return h.cmd(text, meta, conn=c)
                # connection / token forms need an authenticated connection of that user
                c = None
                for cid, stt in conn_state.items():
                    if stt["user"] == user:
                        c = cid
                if c is None:
                    c = next_conn[0]
                    next_conn[0] += 1
                    stp = h.cmd(f"AUTH {user}:{sign(m.users[user]['key'], user)}",
                                {"kind": "auth", "user": user, "expect_ok": m.users[user]["active"]}, conn=c)
                    conn_state[c] = {"user": user, "token_step": stp, "token_wall": h.wall_now()}
                stt = conn_state[c]
                if form == "conn":
                    sig = sign(key, cmd)
                    if bad == "truncated":
                        sig = sig[:40]
                    if bad == "othercmd":
                        sig = sign(key, "PING")
                    meta = dict(meta, form="conn", bad=bad, user=user, auth_step=stt["token_step"])
                    return h.cmd(f"{sig}:{cmd}", meta, conn=c)
                # token form: send it on a fresh, unauthenticated connection so that only the token can authenticate it -
                # or, every other time, on the very connection that obtained the token (a connection must not trust a
                # token merely because it handed it out itself)
                if rng.random() < 0.5:
                    tc = c
                else:
                    tc = 200 + next_conn[0]
                    next_conn[0] += 1
                tok = "{{TOKEN:%d}}" % stt["token_step"]
                if bad == "truncated":
                    tok = "deadbeef"
                meta = dict(meta, form="token", bad=bad, user=user, auth_step=stt["token_step"], token_wall=stt["token_wall"])
                return h.cmd(f"{cmd} TOKEN {tok}", meta, conn=tc)

            # --- set-up by the admin
            issue(ADMIN, 'DEFINE ta FIELDS {"k":"int","s":"string"}', {"kind": "authcmd", "need": "admin"}, form="inline")
            issue(ADMIN, 'DEFINE tb FIELDS {"k":"int","s":"string"}', {"kind": "authcmd", "need": "admin"}, form="inline")
            names = rng.sample(["u1", "u2", "svc-1", "bypass", "no-auth", "Admin", "admin2", "root"], rng.randrange(2, 5))
            for u in names:
                roles = rng.choice([[], [], ["read-only"], ["write-only"], ["editor"], ["viewer"]])
                key = f"key-{u}"
                cmd = f'CREATE USER {u} WITH KEY "{key}"' + (f' WITH ROLES [{", ".join(chr(34)+r+chr(34) for r in roles)}]' if roles else "")
                issue(ADMIN, cmd, {"kind": "authcmd", "need": "admin", "creates": u}, form="inline")
                m.users[u] = {"key": key, "active": True, "roles": roles}
                if not roles and rng.random() < 0.7:
                    t = rng.choice(types)
                    what = rng.choice(["READ", "WRITE", "READ,WRITE"])
                    issue(ADMIN, f"GRANT {what} ON {t} TO {u}", {"kind": "authcmd", "need": "admin"}, form="inline")
                    m.perms[(u, t)] = {"read": "READ" in what, "write": "WRITE" in what}
            # seed data as admin
            for _ in range(rng.randrange(2, 6)):
                k = h.new_k()
                t = rng.choice(types)
                issue(ADMIN, f'STORE {t} FOR c{rng.randrange(2)} PAYLOAD {{"k":{k},"s":"seed"}}', {"kind": "authcmd", "need": ("write", t)}, form="inline")
            if rng.random() < 0.5:
                issue(ADMIN, "FLUSH", {"kind": "authcmd", "need": "auth"}, form="inline")
            remembered = False
            # --- requests
            for _ in range(rng.randrange(10, 30)):
                x = rng.random()
                users = [u for u in names]
                u = rng.choice(users)
                bad = rng.choice([None, None, None, None, "wrongkey", "truncated", "othercmd"])
                if x < 0.03 and not m.users[u]["roles"]:
                    # grant and revoke back to back (same second when the clock ticks slowly)
                    t = rng.choice(types)
                    issue(ADMIN, f"GRANT READ,WRITE ON {t} TO {u}", {"kind": "authcmd", "need": "admin"}, form="inline")
                    issue(ADMIN, f"REVOKE READ,WRITE ON {t} FROM {u}", {"kind": "authcmd", "need": "admin"}, form="inline")
                    m.perms.pop((u, t), None)
                    continue
                if x < 0.05 and m.users[u]["roles"] and "admin" not in m.users[u]["roles"]:
                    # a per-type revoke for a user who has a role: the explicit denial must win, now and after a restart
                    t = rng.choice(types)
                    issue(ADMIN, f"REVOKE READ,WRITE ON {t} FROM {u}", {"kind": "authcmd", "need": "admin"}, form="inline")
                    m.perms[(u, t)] = {"read": False, "write": False}
                    continue
                if x < 0.06:
                    # revoke a key, then the user tries again
                    issue(ADMIN, f"REVOKE KEY {u}", {"kind": "authcmd", "need": "admin"}, form="inline")
                    m.users[u]["active"] = False
                    continue
                if x < 0.12 and not m.users[u]["roles"]:
                    t = rng.choice(types)
                    if (u, t) in m.perms and rng.random() < 0.6:
                        issue(ADMIN, f"REVOKE READ,WRITE ON {t} FROM {u}", {"kind": "authcmd", "need": "admin"}, form="inline")
                        m.perms.pop((u, t), None)
                    else:
                        what = rng.choice(["READ", "WRITE", "READ,WRITE"])
                        issue(ADMIN, f"GRANT {what} ON {t} TO {u}", {"kind": "authcmd", "need": "admin"}, form="inline")
                        old = m.perms.get((u, t), {"read": False, "write": False})
                        m.perms[(u, t)] = {"read": old["read"] or "READ" in what, "write": old["write"] or "WRITE" in what}
                    continue
                if x < 0.16:
                    h.barrier(wall_advance_ms=rng.choice([10_000, (expiry + 5) * 1000]))
                    continue
                if x < 0.19:
                    h.end(rng.choice(["shutdown", "kill"]))
                    h.life(end="shutdown", tick_ms=tick)
                    conn_state.clear()
                    continue
                t = rng.choice(types)
                kind = rng.choice(["store", "store", "query", "query", "count", "replay", "seq", "remember", "show", "flush", "define", "create", "grant", "list"])
                if kind == "store":
                    k = h.new_k()
                    s_val = rng.choice(["v", "a TOKEN b", "x:y:z", "u1:abc:STORE"])
                    cmd, need = f'STORE {t} FOR c{rng.randrange(2)} PAYLOAD {{"k":{k},"s":"{s_val}"}}', ("write", t)
                elif kind == "query":
                    cmd, need = f"QUERY {t}", ("read", t)
                elif kind == "count":
                    cmd, need = f"QUERY {t} COUNT", ("read", t)
                elif kind == "replay":
                    cmd, need = f"REPLAY {t} FOR c{rng.randrange(2)}", ("read", t)
                elif kind == "seq":
                    o = "tb" if t == "ta" else "ta"
                    cmd, need = f"QUERY {t} FOLLOWED BY {o} LINKED BY k", ("read2", t, o)
                elif kind == "remember":
                    name = f"m{h.new_k()}"
                    cmd, need = f"REMEMBER QUERY {t} AS {name}", ("read", t)
                    remembered = remembered or (name, t)
                elif kind == "show":
                    if not remembered:
                        continue
                    cmd, need = f"SHOW {remembered[0]}", ("read", remembered[1])
                elif kind == "flush":
                    cmd, need = "FLUSH", "auth"
                elif kind == "define":
                    cmd, need = f'DEFINE tz{h.new_k()} FIELDS {{"k":"int"}}', "admin"
                elif kind == "create":
                    cmd, need = f'CREATE USER x{h.new_k()} WITH KEY "kk"', "admin"
                elif kind == "grant":
                    cmd, need = f"GRANT READ,WRITE ON {t} TO {u}", "admin"
                else:
                    cmd, need = "LIST USERS", "admin"
                form = rng.choice(["inline", "conn", "token"])
                if not m.users[u]["active"] and form != "inline":
                    # a revoked user cannot open a new authenticated connection; use what it has, else inline
                    if not any(st_["user"] == u for st_ in conn_state.values()):
                        form = "inline"
                allowed = m.users[u]["active"] and bad is None
                if need == "admin":
                    authz = m.is_admin(u)
                elif need == "auth":
                    authz = True
                elif need[0] == "read":
                    authz = m.can_read(u, need[1])
                elif need[0] == "read2":
                    authz = m.can_read(u, need[1]) and m.can_read(u, need[2])
                else:
                    authz = m.can_write(u, need[1])
                issue(u, cmd, {"kind": "authcmd", "need": need if isinstance(need, str) else list(need), "authenticated": allowed,
                               "authorized": authz, "active": m.users[u]["active"], "expiry_s": expiry, "cmdkind": kind}, form=form, bad=bad)
            role_users = [u for u in names if m.users[u]["roles"] and m.users[u]["active"]]
            if i % 3 == 0 and role_users:
                # fixed tail: a per-type denial for a user with a role, persisted across a restart (the auth log must keep
                # what REVOKE left behind), then that user reads and writes the type through two command kinds
                u = role_users[0]
                t = types[0]
                issue(ADMIN, f"REVOKE READ,WRITE ON {t} FROM {u}", {"kind": "authcmd", "need": "admin"}, form="inline")
                m.perms[(u, t)] = {"read": False, "write": False}
                h.end(rng.choice(["shutdown", "kill"]))
                h.life(end="shutdown", tick_ms=tick)
                conn_state.clear()
                k = h.new_k()
                for cmd, need, kind in [(f"QUERY {t}", ("read", t), "query"), (f"REPLAY {t} FOR c0", ("read", t), "replay"),
                                        (f'STORE {t} FOR c0 PAYLOAD {{"k":{k},"s":"tail"}}', ("write", t), "store")]:
                    authz = m.can_read(u, t) if need[0] == "read" else m.can_write(u, t)
                    issue(u, cmd, {"kind": "authcmd", "need": list(need), "authenticated": True, "authorized": authz, "active": True,
                                   "expiry_s": expiry, "cmdkind": kind}, form="inline")
            yield h.done()



# ====================================================================== C14

class C14(Base):
    id = "C14"
    technique = "deterministic simulation: REMEMBER/SHOW vs live query in the same frozen state, histories with shared high-water seconds (scripted clock), flush/compaction/restart between SHOWs"
    level_text = ("Seeded histories in which events arrive before REMEMBER, between REMEMBER and SHOW and between SHOWs; the simulated "
                  "wall clock is frozen or stepped in sub-second ticks so that new events share the stored high-water second (and, on "
                  "another shard, carry a smaller event id); FLUSH, compaction rounds and clean/kill restarts between SHOWs move "
                  "already materialised events into new segments. In one frozen state the multiset of events of SHOW m must equal the "
                  "set QUERY q returns (each once); SHOW twice without new data must return the same rows; REMEMBER under an existing "
                  "name must be rejected and leave the old one unchanged.")
    clauses = {"show-missing", "show-extra", "show-duplicate", "show-unstable", "remember-duplicate-accepted", "show-error",
               "frames", "read-error", "panic"}
    budgets = {"quick": {"histories": 100}, "thorough": {"histories": 20000}}

    @staticmethod
    def nontrivial(plan, res):
        return res["stats"].get("reads:show", 0) > 0

    @staticmethod
    def gen(seed, tier):
        for i in range(C14.budgets[tier]["histories"]):
            rng = rnd("C14", seed, i)
            cfg = {"shard_count": rng.choice([1, 2, 3]), "fill_factor": rng.choice([1, 2, 3]), "event_per_zone": rng.choice([1, 2, 3]),
                   "segments_per_merge": 2, "wal": {"flush_each_write": True, "buffered": False}}
            h = H(seed, "C14", cfg, uid_salt=f"C14-{seed}-{i}")
            tick = rng.choice([0, 0, 250, 400, 1000])
            h.life(end="shutdown", tick_ms=tick)
            h.define("a", {"k": "int", "s": "string", "n": "int"})
            ctxs = [f"c{j}" for j in range(rng.choice([1, 2, 4]))]
            qpool = [({"type": "a"}, "all"), ({"type": "a", "where": ("cmp", "s", "=", "x")}, "where:s="),
                     ({"type": "a", "where": ("cmp", "n", ">=", 2)}, "where:n>="), ({"type": "a", "ctx": ctxs[0]}, "for"),
                     ({"type": "a", "ret": ["s", "k"]}, "return"),
                     ({"type": "a", "where": ("and", ("cmp", "s", "=", "x"), ("cmp", "n", "<", 3))}, "where:and")]
            mats = []     # (name, q, feat)

            def st():
                k = h.new_k()
                h.store("a", rng.choice(ctxs), {"k": k, "s": rng.choice(["x", "y"]), "n": rng.randrange(0, 5)}, k=k)

            def remember():
                q, feat = rng.choice(qpool)
                name = f"m{len(mats)}"
                from .qmodel import query_text
                h.cmd(f"REMEMBER {query_text(q)} AS {name}", {"kind": "remember", "name": name, "q": q, "feat": "remember:" + feat, "dup": False})
                mats.append((name, q, feat))

            def cp(tag):
                h.step({"op": "barrier", "meta": {"kind": "checkpoint", "tag": tag}})
                for name, q, feat in mats:
                    if rng.random() < 0.8:
                        h.query(q, tag=tag, feat="live:" + feat)
                        h.cmd(f"SHOW {name}", {"kind": "show", "name": name, "q": q, "tag": tag, "feat": "show:" + feat,
                                                "fkey": h.cur["steps"][-1]["meta"]["fkey"]})
                        if rng.random() < 0.3:
                            h.cmd(f"SHOW {name}", {"kind": "show", "name": name, "q": q, "tag": tag, "feat": "show:" + feat,
                                                    "fkey": h.cur["steps"][-2]["meta"]["fkey"], "again": True})
                if mats and rng.random() < 0.2:
                    name, q, feat = rng.choice(mats)
                    from .qmodel import query_text
                    h.cmd(f"REMEMBER {query_text(q)} AS {name}", {"kind": "remember", "name": name, "q": q, "feat": "remember:dup", "dup": True})
                if rng.random() < 0.4 and len(mats) < 3:
                    remember()
            for _ in range(rng.randrange(0, 4)):
                st()
            remember()
            layout_script(h, rng, st, rng.randrange(4, 14), cp)
            yield h.done()



# ====================================================================== C15

class C15(Base):
    id = "C15"
    technique = "deterministic simulation: sequence queries over events placed across shards and tiers by the history (scripted clock for equal/distinct times); pair-matcher model + layout invariance"
    level_text = ("Two event types with a link field whose values are shared by many events, by one side only, or absent; equal and "
                  "distinct times produced by the scripted wall clock; event-prefixed WHERE conditions on either side; LIMIT; the "
                  "events are spread over shards, memory, flushed and compacted segments and restarts by the history. Every returned "
                  "pair must carry the same link value, respect the time relation (FOLLOWED BY: b at the same time or later; "
                  "PRECEDED BY: strictly earlier) and both sides' conditions; the set of matched a-events must equal the reference "
                  "matcher's; LIMIT bounds the number of sequences; answers are identical at every layout checkpoint.")
    clauses = {"seq-bad-pair", "seq-missing", "seq-extra", "seq-limit", "seq-shape", "layout-variance", "frames", "read-error", "panic"}
    budgets = {"quick": {"histories": 100}, "thorough": {"histories": 20000}}

    @staticmethod
    def nontrivial(plan, res):
        return res["stats"].get("reads:seq", 0) > 0 and res["stats"].get("store_acked", 0) > 1

    @staticmethod
    def gen(seed, tier):
        for i in range(C15.budgets[tier]["histories"]):
            rng = rnd("C15", seed, i)
            cfg = {"shard_count": rng.choice([1, 2, 3]), "fill_factor": rng.choice([1, 2, 3]), "event_per_zone": rng.choice([1, 2, 3]),
                   "segments_per_merge": 2, "wal": {"flush_each_write": True, "buffered": False}}
            h = H(seed, "C15", cfg, uid_salt=f"C15-{seed}-{i}")
            h.life(end="shutdown", tick_ms=rng.choice([1000, 1000, 0, 500]))
            h.define("pv", {"k": "int", "uid": "string", "page": "string", "acct": "int | null"})
            h.define("oc", {"k": "int", "uid": "string", "st": "string", "acct": "int | null"})
            uids = [f"u{j}" for j in range(rng.choice([2, 3, 5]))]
            ctxs = [f"c{j}" for j in range(rng.choice([1, 2, 4]))]
            queries = []
            for _ in range(rng.randrange(3, 6)):
                a, b = rng.choice([("pv", "oc"), ("oc", "pv")])
                rel = rng.choice(["FOLLOWED BY", "PRECEDED BY"])
                conds = []
                feat = [rel.split()[0]]
                if rng.random() < 0.4:
                    conds.append(("pv", "page", rng.choice(["/checkout", "/home"])))
                    feat.append("WHERE:pv")
                if rng.random() < 0.4:
                    conds.append(("oc", "st", rng.choice(["done", "open"])))
                    feat.append("WHERE:oc")
                lim = rng.choice([None, None, 1, 2])
                if lim is not None:
                    feat.append("LIMIT")
                # a third of the queries link by a nullable integer key (events without the key link to nothing)
                link = "acct" if rng.random() < 0.35 else "uid"
                if link == "acct":
                    feat.append("LINK:int-nullable")
                text = f"QUERY {a} {rel} {b} LINKED BY {link}"
                if conds:
                    text += " WHERE " + " AND ".join(f'{t}.{f}="{v}"' for t, f, v in conds)
                if lim is not None:
                    text += f" LIMIT {lim}"
                queries.append((text, {"kind": "seq", "a": a, "b": b, "rel": rel, "link": link, "conds": conds, "limit": lim,
                                       "feat": "seq:" + "+".join(feat)}))

            def st():
                k = h.new_k()
                extra = {}
                if rng.random() < 0.3:
                    extra["wall_advance_ms"] = rng.choice([0, 1000, 5000])
                acct = rng.choice([None, None, 7, 8, 9, 1000000])
                if rng.random() < 0.5:
                    h.store("pv", rng.choice(ctxs), {"k": k, "uid": rng.choice(uids), "page": rng.choice(["/checkout", "/home"]), "acct": acct}, k=k, **extra)
                else:
                    h.store("oc", rng.choice(ctxs), {"k": k, "uid": rng.choice(uids), "st": rng.choice(["done", "open"]), "acct": acct}, k=k, **extra)

            def cp(tag):
                h.step({"op": "barrier", "meta": {"kind": "checkpoint", "tag": tag}})
                for text, meta in queries:
                    h.read_arrivals += 2 * h.nshards
                    h.cmd(text, dict(meta, tag=tag))
            layout_script(h, rng, st, rng.randrange(4, 16), cp)
            yield h.done()



# ====================================================================== C19

class C19(Base):
    id = "C19"
    level = "fault_enumeration"
    technique = "deterministic simulation: errno/short-write faults on the archive path enumerated per cleanup pass; I/O-trace oracle + archive recovery round trip"
    level_text = ("conservative_mode=true. Seeded histories of STOREs (payload values from the edge-value pool, empty logs, a torn last "
                  "line left by a crash inside an unbuffered append in the previous lifetime) and flushes; every flush runs a WAL "
                  "cleanup pass. For each base history one variant per (archive operation kind x occurrence) injects EIO / ENOSPC / "
                  "EACCES / ENOTDIR / EEXIST or a short write on the archive directory or file of the i-th eligible log. Oracle on "
                  "the I/O trace: an unlink of wal-N.log is preceded, in the same pass, by a completed archive of log N (created, all "
                  "writes and the fsync succeeded), and no WAL log is unlinked in a pass in which any archive operation failed. "
                  "Afterwards the archive recovery API must return exactly the parseable entries of every deleted log (bytes captured "
                  "by the seam) with type, context, timestamp, payload and event id, in log order.")
    clauses = {"unlink-without-archive", "unlink-after-failed-archive", "archive-lossy", "panic"}
    budgets = {"quick": {"histories": 24, "fault_variants": 12}, "thorough": {"histories": 1200, "fault_variants": 60}}
    opts = {"archive": True}

    @staticmethod
    def nontrivial(plan, res):
        return res["stats"].get("wal_unlinks", 0) > 0 or res["stats"].get("archive_faults_fired", 0) > 0

    @staticmethod
    def gen(seed, tier):
        for i in range(C19.budgets[tier]["histories"]):
            rng = rnd("C19", seed, i)
            torn_fixed = i % 4 == 1      # fixed histories: one shard, unbuffered WAL, a line torn inside a multi-byte character
            cfg = {"shard_count": 1 if torn_fixed else rng.choice([1, 1, 2]), "fill_factor": rng.choice([1, 2]), "event_per_zone": rng.choice([1, 2]),
                   "segments_per_merge": 2,
                   "wal": {"flush_each_write": True, "buffered": False if torn_fixed else rng.choice([False, True]), "buffer_size": 64,
                           "conservative_mode": True}}
            h = H(seed, "C19", cfg, uid_salt=f"C19-{seed}-{i}")
            h.life(end="kill" if rng.random() < 0.3 and not torn_fixed else "shutdown")
            h.define("w", {"k": "int", "s": "string", "o": "int | null"})
            ctxs = ["c0", "c1", "c2"]
            pool = ["x", "", "héllo ✓", "17", "null", "line with spaces", "q\"uote" if False else "tab\tin", "L" * 300]
            stores_in_life = [0]

            def st(s_val=None):
                k = h.new_k()
                stores_in_life[0] += 1
                h.store("w", rng.choice(ctxs), {"k": k, "s": rng.choice(pool) if s_val is None else s_val, "o": rng.choice([None, 1, -5])}, k=k)
            nlife = 2 if torn_fixed else rng.choice([1, 2])
            for li in range(nlife):
                stores_in_life[0] = 0
                for _ in range(rng.randrange(4, 14)):
                    x = rng.random()
                    if x < 0.2:
                        h.flush()
                    else:
                        st()
                h.flush()
                if li < nlife - 1:
                    can_tear = cfg["shard_count"] == 1 and not cfg["wal"]["buffered"]
                    if can_tear and (torn_fixed or rng.random() < 0.4):
                        # leave a torn last line: crash inside the next WAL append. With one shard and an unbuffered WAL
                        # every STORE is two writes (line, newline), so the line of the next STORE is write 2n+1 of this
                        # lifetime. The next lifetime resumes that log, appends more entries, and a later pass archives it.
                        nth = 2 * stores_in_life[0] + 1
                        if torn_fixed:
                            st("\u2713" * 120)      # three-byte characters: most cut positions are inside a character
                            short = rng.choice([150, 151, 152, 200])
                        else:
                            st()
                            short = rng.choice([1, 10, 40])
                        h.cur["io_faults"].append({"id": "torn", "op": "write", "path": "wal/shard-*/wal-*.log",
                                                    "nth": nth, "short": short, "then_crash": True})
                        h.cur["end"] = {"crash_before_io": 10 ** 9}
                        h.life(end="shutdown")
                        continue
                    h.end(rng.choice(["kill", "shutdown"]))
                    h.life(end="shutdown")
            for sh in range(cfg["shard_count"]):
                h.step({"op": "wal_archive_recover", "shard": sh, "dir_rel": f"wal/archived/shard-{sh}", "meta": {"kind": "archive_recover", "shard": sh}})
            plan = h.done()
            plan["enumerate_life"] = len(plan["lifetimes"]) - 1
            yield plan

    @staticmethod
    def variants(plan, result, seed, tier):
        li = plan["enumerate_life"]
        info = result["io"][li] if li < len(result["io"]) else None
        if not info or "events" not in info:
            return
        rng = rnd("C19v", seed, result["id"])
        arch = [(k, op, pc) for k, op, pc in info["events"] if pc == "wal-archive"]
        kinds = sorted({op for _, op, _ in arch})
        cands = []
        for op in kinds:
            n = sum(1 for _, o, _ in arch if o == op)
            for nth in range(1, n + 1):
                for err in (["EIO", "ENOSPC"] if op in ("write", "fsync") else ["EACCES", "ENOTDIR", "EEXIST"] if op in ("mkdir",) else ["EACCES", "ENOSPC", "EIO"]):
                    cands.append((op, nth, err, -1))
                if op == "write":
                    cands.append((op, nth, None, rng.choice([1, 7, 30])))
        rng.shuffle(cands)
        for op, nth, err, short in cands[: C19.budgets[tier]["fault_variants"]]:
            p = copy.deepcopy(plan)
            p.pop("id", None)
            f = {"id": f"arch-{op}-{nth}-{err or 'short'}", "op": op, "path": "wal/archived*", "nth": nth}
            if err:
                f["errno"] = err
            else:
                f["short"] = short
            p["lifetimes"][li]["io_faults"] = list(p["lifetimes"][li].get("io_faults", [])) + [f]
            p["opts"] = {"faulty": True}
            yield p
        # two faults: the first makes a whole clean-up pass fail (its logs stay), so that the next pass has several
        # eligible logs; the second hits the archive of a later log of that pass - "if archiving ANY eligible file fails,
        # no log file is deleted" is about exactly this pass
        # (a rule that does not fire does not count the event another rule faulted: occurrence 2 of the second rule is the
        # archive of the second log of the pass that follows the failed one)
        fixed = [(op2, 2) for op2 in ("open", "write", "fsync") if op2 in kinds]
        combos = [(op2, nth2) for op2 in kinds if op2 in ("open", "write", "fsync") for nth2 in range(3, 7)]
        rng.shuffle(combos)
        for op2, nth2 in fixed + combos[: (2 if tier == "quick" else 12)]:
            p = copy.deepcopy(plan)
            p.pop("id", None)
            first = {"id": "arch-pass1", "op": "open", "path": "wal/archived*", "nth": 1, "errno": rng.choice(["EACCES", "ENOSPC"])}
            second = {"id": f"arch-pass2-{op2}-{nth2}", "op": op2, "path": "wal/archived*", "nth": nth2,
                      "errno": rng.choice(["EIO", "ENOSPC"]) if op2 != "open" else "EACCES"}
            p["lifetimes"][li]["io_faults"] = list(p["lifetimes"][li].get("io_faults", [])) + [first, second]
            p["opts"] = {"faulty": True}
            yield p



# ====================================================================== C06

E_SCHEMA = {"k": "int", "i": "int", "u": "u64", "f": "float", "s": "string", "b": "bool", "en": ["red", "green"],
            "dt": "datetime", "d": "date", "o": "string | null"}


def e_valid(k, rng):
    p = {"k": k, "i": rng.choice([0, -7, 9223372036854775807, -9223372036854775808]), "u": rng.choice([0, 5, 18446744073709551615]),
         "f": rng.choice([1.5, -0.25, 2, 1e10]), "s": rng.choice(["x", "hello", "ünï"]), "b": rng.choice([True, False]),
         "en": rng.choice(["red", "green"]), "dt": rng.choice([1735787045, "2025-01-02T03:04:05Z", "2025-01-02T03:04:05+02:00"]),
         "d": rng.choice(["2025-01-02", 1735776000]), "o": rng.choice([None, "v", "__ABSENT__"])}
    if p["o"] == "__ABSENT__":
        del p["o"]
    return p


INVALID_MUTATIONS = [
    ("missing:i", lambda p: p.pop("i")), ("missing:s", lambda p: p.pop("s")), ("missing:en", lambda p: p.pop("en")),
    ("extra", lambda p: p.__setitem__("extra", 1)), ("misspelt", lambda p: (p.__setitem__("I", p.pop("i")))),
    ("int<-string", lambda p: p.__setitem__("i", "5")), ("int<-float", lambda p: p.__setitem__("i", 1.5)),
    ("int<-bool", lambda p: p.__setitem__("i", True)), ("int<-null", lambda p: p.__setitem__("i", None)),
    ("int<-object", lambda p: p.__setitem__("i", {"a": 1})), ("int<-array", lambda p: p.__setitem__("i", [1])),
    ("int<-overflow", lambda p: p.__setitem__("i", 9223372036854775808)),
    ("u64<-negative", lambda p: p.__setitem__("u", -1)), ("u64<-overflow", lambda p: p.__setitem__("u", 18446744073709551616)),
    ("u64<-string", lambda p: p.__setitem__("u", "1")),
    ("float<-string", lambda p: p.__setitem__("f", "1.5")), ("float<-bool", lambda p: p.__setitem__("f", False)),
    ("string<-int", lambda p: p.__setitem__("s", 5)), ("string<-bool", lambda p: p.__setitem__("s", True)),
    ("string<-null", lambda p: p.__setitem__("s", None)),
    ("bool<-string", lambda p: p.__setitem__("b", "true")), ("bool<-int", lambda p: p.__setitem__("b", 1)),
    ("enum<-wrongcase", lambda p: p.__setitem__("en", "Red")), ("enum<-unknown", lambda p: p.__setitem__("en", "blue")),
    ("enum<-int", lambda p: p.__setitem__("en", 0)),
    ("datetime<-garbage", lambda p: p.__setitem__("dt", "not a time")), ("datetime<-bool", lambda p: p.__setitem__("dt", True)),
    ("date<-garbage", lambda p: p.__setitem__("d", "2025-13-45")),
    # strings that START with a valid calendar date but are not a time the documentation accepts
    ("datetime<-bad-clock", lambda p: p.__setitem__("dt", "2025-09-07T25:61:00Z")),
    ("datetime<-no-offset", lambda p: p.__setitem__("dt", "2025-09-07T12:34:56")),
    ("datetime<-date-then-text", lambda p: p.__setitem__("dt", "2025-09-08 is the day")),
    ("date<-date-then-text", lambda p: p.__setitem__("d", "2025-09-08T")),
    ("optional<-wrongtype", lambda p: p.__setitem__("o", 5)),
]


class C06(Base):
    id = "C06"
    technique = "deterministic simulation: accept/reject decisions and 'no trace' checked across flush, compaction, kill and restart; failed DEFINE leaves the schema in force across lifetimes"
    level_text = ("Claimed with a caveat: the accept/reject function itself is a function of (schema, payload) - the payloads are input "
                  "generation (missing/extra/misspelt keys, every JSON type in every slot, i64/u64 boundaries, float-for-int, "
                  "wrong-case enum, unparseable times, empty context, undefined type). What the simulation adds is the temporal half "
                  "of the statement: a rejected STORE leaves no trace in any later read at any layout checkpoint or lifetime (also not "
                  "after WAL recovery, flush and compaction), and a DEFINE answered with an error leaves the original schema's "
                  "acceptance behaviour in force, also after restart.")
    clauses = {"accepted-invalid", "rejected-valid", "foreign-row", "duplicate-row", "define-error-changed-schema", "panic"}
    budgets = {"quick": {"histories": 80}, "thorough": {"histories": 20000}}

    @staticmethod
    def gen(seed, tier):
        for i in range(C06.budgets[tier]["histories"]):
            rng = rnd("C06", seed, i)
            cfg = {"shard_count": rng.choice([1, 2]), "fill_factor": rng.choice([1, 2, 3]), "event_per_zone": rng.choice([1, 2]),
                   "segments_per_merge": 2, "wal": {"flush_each_write": True, "buffered": False}}
            h = H(seed, "C06", cfg, uid_salt=f"C06-{seed}-{i}")
            h.life(end="shutdown")
            h.define("e", E_SCHEMA)
            ctxs = ["c0", "c1"]

            def st():
                k = h.new_k()
                x = rng.random()
                p = e_valid(k, rng)
                if x < 0.45:
                    h.store("e", rng.choice(ctxs), p, k=k, vclass="valid")
                elif x < 0.9:
                    name, mut = rng.choice(INVALID_MUTATIONS)
                    mut(p)
                    h.store("e", rng.choice(ctxs), p, k=k, valid=False, vclass="invalid:" + name)
                elif x < 0.93:
                    h.store("e", "", p, k=k, valid=False, vclass="invalid:empty-context")
                elif x < 0.96:
                    h.store("e", rng.choice(["   ", " ", "\t"]), p, k=k, valid=False, vclass="invalid:blank-context")
                else:
                    h.store("undefined_type", rng.choice(ctxs), p, k=k, valid=False, vclass="invalid:undefined-type")
                if rng.random() < 0.08:
                    # a DEFINE that must fail: the type exists already (with a schema that would accept other payloads)
                    h.cmd('DEFINE e FIELDS {"k":"int"}', {"kind": "define_fail", "type": "e"})

            def cp(tag):
                h.step({"op": "barrier", "meta": {"kind": "checkpoint", "tag": tag}})
                h.select("e", tag=tag)
            layout_script(h, rng, st, rng.randrange(6, 20), cp)
            if i % 4 == 2:
                # a DEFINE of a NEW type whose persistence fails (EIO / ENOSPC on the n-th write to the schema store): it is
                # answered with an error, so the type must stay undefined - STOREs rejected, nothing readable, also after a
                # restart - and a later, fault-free DEFINE of the same type must work
                h.end("shutdown")
                h.life(end="shutdown")
                h.cur["io_faults"] = [{"id": "define-io", "op": "write", "path": "schema/*", "nth": rng.choice([1, 1, 2, 3]),
                                       "errno": rng.choice(["EIO", "ENOSPC"])}]
                fs = {"k": "int", "s": "string"}
                h.cmd(f"DEFINE f FIELDS {schema_text(fs)}", {"kind": "define", "type": "f", "schema": fs})
                for _ in range(2):
                    k = h.new_k()
                    h.store("f", rng.choice(ctxs), {"k": k, "s": "x"}, k=k, vclass="after-failed-define")
                h.select("e", tag="after-failed-define")
                h.cmd(f"DEFINE f FIELDS {schema_text(fs)}", {"kind": "define", "type": "f", "schema": fs, "retry": True})
                k = h.new_k()
                h.store("f", rng.choice(ctxs), {"k": k, "s": "y"}, k=k, vclass="after-define-retry")
                h.types["f"] = fs
                h.select("f", tag="after-define-retry")
                h.end(rng.choice(["shutdown", "kill"]))
                h.life(end="shutdown")
                h.select("f", tag="restart-after-define-retry")
                h.select("e", tag="restart-after-define-retry")
            if i % 4 == 0:
                # a crash tears the record that a DEFINE appends to the schema store (short write, then exit); types
                # defined after the restart must be durable all the same
                h.end("shutdown")
                h.life(end={"crash_before_io": 10 ** 9})
                h.cur["io_faults"] = [{"id": "define-torn", "op": "write", "path": "schema/*", "nth": 1,
                                       "short": rng.choice([3, 9, 30]), "then_crash": True}]
                fs = {"k": "int", "s": "string"}
                h.cmd(f"DEFINE f FIELDS {schema_text(fs)}", {"kind": "define", "type": "f", "schema": fs})
                h.life(end=rng.choice(["shutdown", "kill"]))
                h.select("e", tag="after-torn-define")
                h.cmd(f"DEFINE g FIELDS {schema_text(fs)}", {"kind": "define", "type": "g", "schema": fs})
                h.types["g"] = fs
                for _ in range(2):
                    k = h.new_k()
                    h.store("g", rng.choice(ctxs), {"k": k, "s": "x"}, k=k, vclass="after-torn-define")
                h.select("g", tag="after-torn-define")
                h.life(end="shutdown")
                h.select("g", tag="restart-after-torn-define")
                h.select("e", tag="restart-after-torn-define")
            yield h.done()


# ====================================================================== registry

PROFILES = {"C01": C01, "C02": C02, "C03": C03, "C04": C04, "C05": C05, "C06": C06, "C07": C07, "C09": C09, "C10": C10, "C11": C11, "C12": C12, "C13": C13, "C14": C14, "C15": C15, "C18": C18, "C19": C19}

NOT_APPLICABLE = {
    "C08": "pure function of (zone value multiset, probe): no schedule, clock, fault or history in it; its end-to-end consequence is covered by C02's layout-invariance oracle",
    "C16": "pure function of literal spellings and the configured timezone: nothing for a simulator to schedule, delay or break",
    "C17": "totality of parsing/dispatch is a pure function of the input string; no interleaving, crash or clock involved",
    "C20": "pure function of (result batch, renderer); no nondeterminism or fault surface",
}
for _p in ():
    NOT_APPLICABLE.setdefault(_p, "check under construction in this session (claimed by DESIGN.md; profile not yet registered)")



