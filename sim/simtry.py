#!/usr/bin/env python3
"""Ad-hoc exploration: run commands (one per line on stdin; '---' starts a new lifetime after a kill,
'===' after a clean shutdown; '@advance <ms>'; '@hold id gate key nth'; '@release id'; '@snap';
'@cfg key=val') and print the responses."""
import sys, json, os
sys.path.insert(0, os.path.dirname(os.path.dirname(os.path.abspath(__file__))))
from sim.runner import run_plan
from sim import resp

def main():
    cfg = {}
    lifes = [{"wall_clock_ms": 1700000000000, "tick_ms": 1000, "steps": [], "holds": [], "end": "shutdown"}]
    verbose = "-v" in sys.argv
    for line in sys.stdin:
        line = line.rstrip("\n")
        if not line.strip() or line.startswith("#"):
            continue
        cur = lifes[-1]
        if line.startswith("---") or line.startswith("==="):
            cur["end"] = "kill" if line.startswith("---") else "shutdown"
            lifes.append({"wall_clock_ms": 1700000000000 + 100000 * len(lifes), "tick_ms": 1000, "steps": [], "holds": [], "end": "shutdown"})
        elif line.startswith("@cfg"):
            for kv in line.split()[1:]:
                k, v = kv.split("=")
                try: v = json.loads(v)
                except Exception: pass
                if "." in k:
                    a, b_ = k.split("."); cfg.setdefault(a, {})[b_] = v
                else:
                    cfg[k] = v
        elif line.startswith("@advance"):
            cur["steps"].append({"op": "advance", "ms": int(line.split()[1])})
        elif line.startswith("@hold"):
            _, hid, gate, key, nth = line.split()
            cur["holds"].append({"id": hid, "gate": gate, "key": key, "nth": int(nth)})
        elif line.startswith("@release"):
            cur["steps"].append({"op": "release", "id": line.split()[1]})
        elif line.startswith("@snap"):
            cur["steps"].append({"op": "fs_snapshot"})
        elif line.startswith("@async "):
            cur["steps"].append({"op": "cmd", "text": line[7:], "async": True})
        elif line.startswith("@await"):
            cur["steps"].append({"op": "await", "step": int(line.split()[1])})
        elif line.startswith("@wall"):
            cur["steps"].append({"op": "barrier", "wall_advance_ms": int(line.split()[1])})
        else:
            cur["steps"].append({"op": "cmd", "text": line})
    plan = {"seed": 0, "uid_salt": "try", "config": cfg, "lifetimes": lifes}
    plan, res = run_plan(plan, cleanup=not verbose)
    for li, (ev, code, err) in enumerate(res):
        print(f"=== lifetime {li} exit={code} {err[-300:]}")
        steps = plan["lifetimes"][li]["steps"]
        for e in ev:
            if e["t"] == "resp":
                r = resp.parse(e.get("body"), e.get("stage"))
                print(f"[{e['step']}] {steps[e['step']].get('text')}\n      -> {r}")
            elif e["t"] == "io":
                if verbose: print("      io", e["k"], e["op"], e["path"], e.get("n", ""), e.get("to", ""))
            elif e["t"] in ("gate",):
                if verbose or e.get("parked"): print("      ", json.dumps(e))
            elif e["t"] in ("issue", "start", "ready"):
                pass
            else:
                print("      ", json.dumps(e)[:600])
    if verbose:
        print("root kept:", plan["root"])

main()
