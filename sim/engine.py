"""Batch execution, crash-point enumeration, shrinking, known findings, evidence."""
import json, os, sys, time, copy, hashlib, random, traceback, multiprocessing as mp
from collections import Counter, defaultdict
from . import runner
from .oracle import Walker, HarnessError

VERIF = runner.VERIF
WORKERS = int(os.environ.get("VERIF_WORKERS", "16"))


def path_class(rel):
    if rel.startswith("wal/archived") or "/archived/" in rel:
        return "wal-archive"
    if rel.startswith("wal/auth"):
        return "auth-log"
    if rel.startswith("wal/"):
        return "wal-log" if rel.endswith(".log") else "wal-dir"
    if rel.startswith("schema"):
        return "schema"
    if "/.reclaim" in rel:
        return "reclaim"
    if rel.endswith("segments.idx.tmp"):
        return "segidx-tmp"
    if rel.endswith("segments.idx"):
        return "segidx"
    if rel.startswith("cols/"):
        parts = rel.split("/")
        if len(parts) == 2:
            return "shard-dir"
        if len(parts) == 3:
            return "segment-dir" if parts[2].isdigit() else "shard-file"
        ext = rel.rsplit(".", 1)[-1] if "." in parts[-1] else "noext"
        return "seg-" + ext
    if rel.startswith("materializ") or "/materializ" in rel:
        return "materialized"
    return "other"


def io_events(events):
    return [e for e in events if e.get("t") == "io"]


def log_digest(events):
    """Digest of everything observable in a lifetime's log: responses, I/O events (with payload sizes and
    captured data), gate arrivals/releases, crash and end records. Real-time quantities are not logged."""
    h = hashlib.sha256()
    for e in events:
        t = e.get("t")
        if t == "io":
            h.update(f'io {e["k"]} {e["op"]} {e["path"]} {e.get("n","")} {e.get("to","")} {e.get("data","")} {e.get("hex","")} {e.get("fault","")}\n'.encode())
        elif t == "resp":
            body = e.get("body") or ""
            h.update(f'resp {e["step"]} {e.get("stage")} {body}\n'.encode())
        elif t in ("gate", "release"):
            h.update(f'{t} {e.get("name")} {e.get("key")} {e.get("rule")} {e.get("parked")}\n'.encode())
        elif t == "rofault":
            h.update(f'rofault {e.get("path")} {e.get("fault")} {e.get("errno")}\n'.encode())
        elif t in ("crash", "stuck", "advanced", "issue", "ready"):
            h.update(f'{t} {e.get("step")} {e.get("k")} {e.get("io")} {e.get("how")} {e.get("wall_ms")}\n'.encode())
        elif t == "fs":
            h.update(json.dumps(e.get("files"), sort_keys=True).encode())
        elif t == "end":
            h.update(f'end {e.get("how")} {e.get("io")} {e.get("sim_ms")}\n'.encode())
    return h.hexdigest()[:20]


def execute(job):
    """Pool worker: run a plan, walk it, return a compact result."""
    plan, opts = job
    t0 = time.time()
    out = {"id": plan.get("id") or runner.plan_id(plan), "violations": [], "stats": {}, "harness": None,
           "io": [], "sim_ms": 0, "wall": 0.0}
    try:
        plan2, res = runner.run_plan(plan, cleanup=not opts.get("keep"))
        out["id"] = plan2["id"]
        w = Walker(plan2, res, opts)
        viol, stats = w.run()
        if opts.get("segments"):
            from . import segments
            sv = segments.check(plan2, res)
            viol = viol + sv
            stats["segment_oracle_violations"] += len(sv)
            stats["fs_snapshots"] += sum(1 for ev, _, _ in res for e in ev if e.get("t") == "fs")
            stats["ro_opens_seen"] += sum(1 for ev, _, _ in res for e in ev if e.get("t") == "ro")
        if opts.get("archive"):
            from . import archive
            av, ast = archive.check(plan2, res)
            viol = viol + av
            for key, val in ast.items():
                stats[key] += val
        out["violations"] = viol
        out["stats"] = dict(stats)
        out["samples"] = w.samples
        hooks = opts.get("post")
        for li, (ev, code, err) in enumerate(res):
            ios = io_events(ev)
            summary = {"n": len(ios), "code": code}
            if opts.get("want_io") is not None and li in opts["want_io"]:
                summary["events"] = [(e["k"], e["op"], path_class(e["path"])) for e in ios]
                ready = [e for e in ev if e.get("t") == "ready"]
                summary["startup_io"] = ready[0]["io"] if ready else 0
                summary["issue_io"] = {e["step"]: e["io"] for e in ev if e.get("t") == "issue"}
            gates = Counter(e["name"] for e in ev if e.get("t") == "gate")
            summary["gates"] = dict(gates)
            summary["parked"] = sum(1 for e in ev if e.get("t") == "gate" and e.get("parked"))
            summary["faults"] = dict(Counter(
                (f'errno{e["errno"]}' if e.get("errno") else f'short-write' if "short" in e else "fault") + ":" + e["op"] + ":" + path_class(e["path"])
                for e in ios if e.get("fault")))
            for e in ev:
                if e.get("t") == "rofault":
                    key = f'errno{e.get("errno")}:open_ro:' + path_class(e["path"])
                    summary["faults"][key] = summary["faults"].get(key, 0) + 1
            crash = [e for e in ev if e.get("t") == "crash"]
            if crash:
                c = crash[0]
                summary["crash"] = (c.get("how"), c.get("op"), path_class(c["path"]) if c.get("path") else c.get("name"))
            for e in ev:
                if e.get("t") == "end":
                    out["sim_ms"] += e.get("sim_ms", 0)
            summary["trace_hash"] = hashlib.sha256(
                "\n".join(f'{e["op"]} {e["path"]} {e.get("n","")}' for e in ios).encode()).hexdigest()[:16]
            summary["gate_hash"] = hashlib.sha256(
                "\n".join(f'{e.get("t")} {e.get("name")} {e.get("key")}' for e in ev if e.get("t") in ("gate", "release")).encode()).hexdigest()[:16]
            summary["log_hash"] = log_digest(ev)
            out["io"].append(summary)
        if hooks:
            for hk in hooks:
                hk(plan2, res, out)
    except HarnessError as e:
        out["harness"] = str(e)
    except Exception as e:
        out["harness"] = "exception: " + "".join(traceback.format_exception_only(type(e), e)) + traceback.format_exc()[-800:]
    out["wall"] = time.time() - t0
    return out


_POOL = None


def pool():
    global _POOL
    if _POOL is None:
        _POOL = mp.Pool(WORKERS)
    return _POOL


def run_jobs(jobs, chunksize=1):
    if WORKERS <= 1:
        for j in jobs:
            yield j, execute(j)
        return
    # identical plans have the same id and would share one data root: run each distinct plan once
    seen, uniq = set(), []
    for j in jobs:
        pid = runner.plan_id(j[0])
        if pid not in seen:
            seen.add(pid)
            uniq.append(j)
    jobs = uniq
    for j, r in zip(jobs, pool().imap(execute, jobs, chunksize)):
        yield j, r


# ------------------------------------------------------------------ crash variants

def crash_variant(plan, li, k, how="crash_before_io"):
    p = copy.deepcopy(plan)
    p.pop("id", None)
    p.pop("root", None)
    p["lifetimes"][li]["end"] = {how: k}
    p["variant"] = {"of": plan.get("id") or runner.plan_id(plan), "life": li, how: k}
    return p


def choose_crash_points(events, startup_io, rng, limit):
    """events: [(k, op, pathclass)] of a lifetime. All points when few; otherwise the first and last event
    of every (op, class) plus a seeded sample."""
    ks = [k for k, _, _ in events]
    if len(ks) <= limit:
        return ks
    first, last = {}, {}
    for k, op, pc in events:
        first.setdefault((op, pc), k)
        last[(op, pc)] = k
    must = set(first.values()) | set(last.values())
    rest = [k for k in ks if k not in must]
    rng.shuffle(rest)
    take = max(0, limit - len(must))
    return sorted(must | set(rest[:take]))


# ------------------------------------------------------------------ shrinking

def _renumber(life, removed_idx):
    """After removing step `removed_idx`, fix references to later steps."""
    for st in life["steps"]:
        if st.get("op") == "await" and isinstance(st.get("step"), int):
            if st["step"] > removed_idx:
                st["step"] -= 1
            elif st["step"] == removed_idx:
                st["step"] = -1


def shrink(plan, still_fails, budget_s=120, log=None):
    """Greedy delta debugging over lifetimes, steps, holds and faults. `still_fails(plan)` -> bool."""
    t0 = time.time()
    best = copy.deepcopy(plan)
    for key in ("id", "root"):
        best.pop(key, None)

    def expired():
        # the loops below copy the plan for every candidate: stop them, not only the executions, when time is up
        return time.time() - t0 > budget_s

    def attempt(cand):
        if time.time() - t0 > budget_s:
            return False
        try:
            return still_fails(cand)
        except Exception:
            return False

    changed = True
    while changed and time.time() - t0 < budget_s:
        changed = False
        # drop whole lifetimes (never the last one)
        li = 0
        while li < len(best["lifetimes"]) - 1 and len(best["lifetimes"]) > 1 and not expired():
            cand = copy.deepcopy(best)
            del cand["lifetimes"][li]
            if attempt(cand):
                best = cand
                changed = True
            else:
                li += 1
        # drop steps, back to front, in chunks then singly
        for li in range(len(best["lifetimes"])):
            chunk = max(1, len(best["lifetimes"][li]["steps"]) // 2)
            while chunk >= 1 and not expired():
                si = len(best["lifetimes"][li]["steps"]) - chunk
                while si >= 0 and not expired():
                    cand = copy.deepcopy(best)
                    life = cand["lifetimes"][li]
                    removed = life["steps"][si:si + chunk]
                    if any((s.get("meta") or {}).get("kind") == "define" for s in removed) and chunk > 1:
                        si -= 1
                        continue
                    del life["steps"][si:si + chunk]
                    for j in range(chunk):
                        _renumber(life, si)
                    end = life.get("end")
                    if attempt(cand):
                        best = cand
                        changed = True
                        si = min(si, len(best["lifetimes"][li]["steps"])) - chunk
                    else:
                        si -= 1
                chunk //= 2
            # holds and faults
            for field in ("holds", "io_faults"):
                i = 0
                while i < len(best["lifetimes"][li].get(field, [])) and not expired():
                    cand = copy.deepcopy(best)
                    del cand["lifetimes"][li][field][i]
                    if attempt(cand):
                        best = cand
                        changed = True
                    else:
                        i += 1
    return best


# ------------------------------------------------------------------ known findings

def load_known():
    path = os.path.join(VERIF, "known_findings.jsonl")
    out = []
    if os.path.exists(path):
        for line in open(path):
            line = line.strip()
            if line and not line.startswith("#"):
                out.append(json.loads(line))
    return out


def _sig_ok(want, got):
    if isinstance(want, dict):
        if "prefix" in want:
            return isinstance(got, str) and any(got.startswith(p) for p in (want["prefix"] if isinstance(want["prefix"], list) else [want["prefix"]]))
        if "contains" in want:
            return isinstance(got, str) and want["contains"] in got
        if "regex" in want:
            import re
            return isinstance(got, str) and re.search(want["regex"], got) is not None
        if "any_of" in want:
            return got in want["any_of"]
        if "intersects" in want:
            return isinstance(got, (list, tuple)) and any(x in want["intersects"] for x in got)
        return False
    if isinstance(want, list):
        return got in want
    return got == want


def match_known(known, prop, v):
    """A violation is 'known' only if an OPEN entry of the same property lists its clause and every attribute of
    the entry's signature matches the cause-class attributes the oracle attached to the violation (attributes are
    derived from the history / trace, e.g. `compacted`, `flush_parked`, `clock_regressed`, `feat`, `vclass`).
    Entries with status 'fixed' never match."""
    for kf in known:
        if kf.get("status") != "open" or kf.get("property") != prop:
            continue
        clauses = kf.get("clauses") or [kf.get("clause")]
        if v.get("clause") not in clauses:
            continue
        sig = kf.get("signature") or {}
        if all(_sig_ok(want, v.get(key)) for key, want in sig.items()):
            return kf
    return None


# ------------------------------------------------------------------ evidence

def write_evidence(prop, tier, seed, level, coverage, wall_s, violations, assumptions):
    os.makedirs(os.path.join(VERIF, "evidence"), exist_ok=True)
    ev = {"property_id": prop, "tier": tier, "seed": seed, "level": level, "coverage": coverage,
          "assumptions": assumptions, "wall_s": round(wall_s, 2), "violations": violations}
    path = os.path.join(VERIF, "evidence", f"{prop}.json")
    tmp = path + ".tmp"
    with open(tmp, "w") as f:
        json.dump(ev, f, indent=1, sort_keys=True, default=str)
    os.replace(tmp, path)
    return path


def save_replay(prop, seed, n, plan, violation, extra=None):
    os.makedirs(os.path.join(VERIF, "replays"), exist_ok=True)
    p = copy.deepcopy(plan)
    p.pop("root", None)
    p.pop("id", None)
    p["expect"] = {"property": prop, "clause": violation.get("clause"), "detail": violation.get("detail")}
    if extra:
        p["expect"].update(extra)
    path = os.path.join(VERIF, "replays", f"{prop}-{seed}-{n}.json")
    with open(path, "w") as f:
        json.dump(p, f, indent=1)
    return path
