"""Entry point: python3 -m sim.check <PROPERTY> --tier quick|thorough [--replay file] [--seed n]"""
import argparse, json, os, subprocess, sys, time, copy
from collections import Counter, defaultdict
from . import engine, runner
from .profiles import PROFILES

VERIF = runner.VERIF
DEFAULT_SEED = 20260925


def build():
    """Rebuild simnode from /repo's current working tree (incremental)."""
    t0 = time.time()
    env = dict(os.environ)
    env["CARGO_NET_OFFLINE"] = "true"
    r = subprocess.run(["cargo", "build", "--quiet"], cwd=os.path.join(VERIF, "simnode"), env=env,
                       stdout=subprocess.PIPE, stderr=subprocess.STDOUT)
    if r.returncode != 0:
        sys.stdout.write(r.stdout.decode("utf-8", "replace")[-6000:])
        print("HARNESS-ERROR: simnode build failed")
        sys.exit(2)
    return time.time() - t0


def replay(prop, path):
    plan = json.load(open(path))
    prof = PROFILES[prop]
    expect = plan.get("expect") or {}
    res = engine.execute((plan, {"keep": False}))
    if res["harness"]:
        print("HARNESS-ERROR:", res["harness"])
        return 2
    rel = [v for v in res["violations"] if v["clause"] in prof.clauses and prof.relevant(v)]
    for v in rel:
        print(f"  {v['clause']}: life {v['life']} step {v['step']}: {v['detail']}")
    if any(v["clause"] == expect.get("clause") for v in rel) or (rel and not expect):
        print(f"VIOLATION property={prop} replay={path}")
        return 1
    print("replay did not reproduce the recorded violation" if expect else "no violation")
    return 0


def main():
    ap = argparse.ArgumentParser()
    ap.add_argument("prop")
    ap.add_argument("--tier", default=os.environ.get("VERIF_TIER", "quick"))
    ap.add_argument("--seed", type=int, default=int(os.environ.get("VERIF_SEED", DEFAULT_SEED)))
    ap.add_argument("--replay")
    ap.add_argument("--no-build", action="store_true")
    ap.add_argument("--no-shrink", action="store_true")
    ap.add_argument("--ignore-known", action="store_true", help="report violations that match an open known finding as well (triage)")
    ap.add_argument("--no-corpus", action="store_true", help="skip the regression corpus (used when looking for a fresh witness)")
    ap.add_argument("--no-evidence", action="store_true", help="do not rewrite evidence/<id>.json (runs against a deliberately modified tree)")
    ap.add_argument("--max-report", type=int, default=5)
    ap.add_argument("--summary", action="store_true")
    ap.add_argument("--features", action="store_true", help="print per-feature failure rates (classification of the clean fragment)")
    ap.add_argument("--inventory", action="store_true", help="print distinct cause-class tuples of the violations found")
    a = ap.parse_args()
    prop = a.prop
    if prop not in PROFILES:
        print(f"HARNESS-ERROR: no profile for {prop}")
        sys.exit(2)
    build_s = 0.0 if a.no_build else build()
    if a.replay:
        sys.exit(replay(prop, a.replay))
    prof = PROFILES[prop]
    tier = a.tier if a.tier in ("quick", "thorough") else "quick"
    seed = a.seed
    t0 = time.time()
    print(f"VERIF_SEED={seed} property={prop} tier={tier} workers={engine.WORKERS} build_s={build_s:.1f}")

    known = [] if a.ignore_known else engine.load_known()
    stats = Counter()
    per_plan = []
    harness = []
    found = []          # (plan, violation)
    known_hits = defaultdict(list)
    other_clauses = Counter()
    trace_hashes, gate_hashes, crash_classes, fault_classes = set(), set(), Counter(), Counter()
    samples = []
    nontrivial = set()
    sim_ms = 0
    evaluations = 0

    def absorb(plan, res):
        nonlocal sim_ms, evaluations
        evaluations += 1
        if res["harness"]:
            harness.append((plan, res["harness"]))
            return
        for key, val in res["stats"].items():
            stats[key] += val
        sim_ms += res.get("sim_ms", 0)
        for s in res["io"]:
            trace_hashes.add(s["trace_hash"])
            gate_hashes.add(s["gate_hash"])
            if "crash" in s:
                crash_classes["/".join(str(x) for x in s["crash"])] += 1
            for f, n in s.get("faults", {}).items():
                fault_classes[f] += n
            stats["io_events"] += s["n"]
            stats["parked"] += s.get("parked", 0)
        if prof.nontrivial(plan, res) if hasattr(prof, "nontrivial") else (
                res["stats"].get("store_acked", 0) > 0 and res["stats"].get("rows_checked", 0) > 0):
            nontrivial.add(res["id"])
        for v in res["violations"]:
            if v["clause"] in prof.clauses and prof.relevant(v):
                kf = engine.match_known(known, prop, v)
                if kf is not None:
                    known_hits[kf["id"]].append((plan, v))
                else:
                    found.append((plan, v))
            else:
                other_clauses[v["clause"]] += 1
        if len(samples) < 3:
            lf = plan["lifetimes"]
            samples.append({"plan_id": res["id"], "config": plan.get("config"),
                            "lifetimes": [{"end": l.get("end"), "holds": l.get("holds"), "io_faults": l.get("io_faults"),
                                           "steps": [s.get("text") or s.get("op") for s in l["steps"]][:40]} for l in lf]})

    want_life = getattr(prof, "wants_io", True)
    bases = list(prof.gen(seed, tier))
    opts_base = dict(getattr(prof, "opts", {}))
    jobs = []
    for p in bases:
        o = dict(opts_base)
        if "enumerate_life" in p:
            o["want_io"] = [p["enumerate_life"]]
        jobs.append((p, o))
    base_results = []
    for (plan, _), res in engine.run_jobs(jobs):
        absorb(plan, res)
        base_results.append((plan, res))
    nbase = len(bases)
    # regression corpus: minimised replays of violations found earlier (every repaired defect and every seeded change that
    # a batch once missed) are re-executed by every run of the property, whatever the seed
    cjobs = []
    cdir = os.path.join(engine.VERIF, "corpus", prop)
    if os.path.isdir(cdir) and not a.no_corpus:
        for name in sorted(os.listdir(cdir)):
            if name.endswith(".json"):
                cp = json.load(open(os.path.join(cdir, name)))
                for key in ("id", "root", "expect"):
                    cp.pop(key, None)
                cp["corpus"] = name
                cjobs.append((cp, dict(opts_base, **(cp.get("opts") or {}))))
    for (plan, _), res in engine.run_jobs(cjobs):
        absorb(plan, res)
    stats["corpus_plans"] = len(cjobs)
    # variants (crash points, schedule variants, fault variants)
    if hasattr(prof, "variants"):
        vjobs = []
        for plan, res in base_results:
            if res["harness"]:
                continue
            for vp in prof.variants(plan, res, seed, tier):
                vjobs.append((vp, dict(opts_base, **(vp.get("opts") or {}))))
        for (plan, _), res in engine.run_jobs(vjobs):
            absorb(plan, res)
    # a run that failed in the harness (typically a wall-clock timeout while the machine is overloaded) is executed once
    # more, alone, after the batch: the execution is a pure function of the plan, so a genuine hang hangs again and is
    # reported (with its plan saved for replay); a stall of the host does not repeat
    if harness:
        again, harness[:] = list(harness), []
        for n, (plan, msg) in enumerate(again):
            p2 = {k: v for k, v in plan.items() if k not in ("id", "root")}
            res = engine.execute((p2, dict(opts_base, **(plan.get("opts") or {}), want_io=[plan["enumerate_life"]] if "enumerate_life" in plan else None)))
            if res["harness"]:
                os.makedirs(os.path.join(engine.VERIF, "replays"), exist_ok=True)
                path = os.path.join(engine.VERIF, "replays", f"{prop}-{seed}-harness-{n}.json")
                json.dump(p2, open(path, "w"))
                harness.append((plan, f"{res['harness']} (twice; plan saved as {path})"))
            else:
                evaluations -= 1
                absorb(plan, res)
                stats["harness_retried_ok"] += 1
    wall = time.time() - t0

    # ---- report
    rc = 0
    if a.inventory:
        c = Counter()
        for plan, v in found:
            c[(v["clause"], v.get("feat"), v.get("vclass"), "compacted" if v.get("compacted") else "", "flush_parked" if v.get("flush_parked") else "",
               "clock_regressed" if v.get("clock_regressed") else "", v.get("tag") if v.get("tag") in ("racing", "racing-ref") else "",
               "after_crash" if v.get("after_crash") else "", v.get("sub") or v.get("inv_kind") or "")] += 1
        for key, n in sorted(c.items(), key=lambda x: str(x[0])):
            print(f"INVENTORY {n:6d} {key}")
    if a.features:
        fails = Counter()
        seen_fail = set()
        for plan, v in found:
            key = (v.get("feat"), v["clause"] + (":" + str(v.get("sub")) if v.get("sub") else "") + ("@compacted" if v.get("compacted") else ""))
            fails[key] += 1
        feats = sorted(k[5:] for k in stats if k.startswith("feat:"))
        for f in feats:
            fl = {c: n for (ff, c), n in fails.items() if ff == f}
            print(f"FEATURE {f:40s} reads={stats['feat:'+f]:6d} fails={fl}")
    if a.summary:
        c = Counter()
        for plan, v in found:
            c[(v["clause"], tuple(v.get("parked") or []), v.get("tag"), v.get("feat") or str(v.get("atoms") or v.get("sub") or ""), v["after_restart"], v["after_crash"])] += 1
        for key, n in sorted(c.items(), key=lambda x: (x[0][0], -x[1])):
            print(f"SUMMARY {n:6d} {key}")
    for kid, hits in sorted(known_hits.items()):
        kf = next(k for k in known if k["id"] == kid)
        print(f"KNOWN-FINDING: property={prop} {kf['id']}: {kf['summary']} ({len(hits)} occurrences in this run)")
    if harness:
        for plan, msg in harness[:5]:
            print("HARNESS-ERROR:", msg[:800])
        print(f"HARNESS-ERROR: {len(harness)} runs failed in the harness")
        rc = 2
    reported = 0
    if found:
        by_clause = defaultdict(list)
        for plan, v in found:
            by_clause[v["clause"]].append((plan, v))
        n = 0
        for clause, items in sorted(by_clause.items()):
            # prefer the shortest plan as starting point
            items.sort(key=lambda it: sum(len(l["steps"]) for l in it[0]["lifetimes"]))
            plan, v = items[0]
            minimal = plan
            if not a.no_shrink:
                def still(cand, clause=clause):
                    r = engine.execute((cand, dict(opts_base)))
                    if r["harness"]:
                        return False
                    return any(x["clause"] == clause and prof.relevant(x) and engine.match_known(known, prop, x) is None
                               for x in r["violations"])
                try:
                    minimal = engine.shrink(plan, still, budget_s=getattr(prof, "shrink_budget", 60))
                except Exception as e:
                    print("shrink failed:", e)
                r = engine.execute((minimal, dict(opts_base)))
                vs = [x for x in r["violations"] if x["clause"] == clause and prof.relevant(x)]
                if vs:
                    v = vs[0]
                else:
                    minimal = plan
            path = engine.save_replay(prop, seed, n, minimal, v)
            n += 1
            print(f"  clause={clause} occurrences={len(items)} e.g. life {v['life']} step {v['step']} [{v.get('text')}]: {v['detail'][:400]}")
            print(f"VIOLATION property={prop} replay={path}")
            reported += 1
            if reported >= a.max_report:
                break
        rc = 1 if rc == 0 else rc

    runs_per_hour = int(evaluations / wall * 3600) if wall > 0 else 0
    coverage = {
        "evaluations": evaluations,
        "distinct_nontrivial": len(nontrivial),
        "rule": getattr(prof, "rule", "plans are generated from VERIF_SEED; a run is non-trivial when at least one STORE was "
                "acknowledged and at least one returned row was checked against the model; distinct = distinct plan hash"),
        "samples": samples,
        "base_histories": nbase,
        "lifetimes": stats.get("lifetimes", 0),
        "runs_per_hour": runs_per_hour,
        "simulated_seconds": round(sim_ms / 1000.0, 1),
        "io_events_seen": stats.get("io_events", 0),
        "distinct_io_traces": len(trace_hashes),
        "distinct_gate_interleavings": len(gate_hashes),
        "crash_points_fired_by_class": dict(crash_classes),
        "faults_fired_by_class": dict(fault_classes),
        "tasks_parked_by_hold_rules": stats.get("parked", 0),
        "counters": {k: v for k, v in sorted(stats.items())},
        "clauses_checked": sorted(prof.clauses),
        "violations_of_other_properties_seen_not_reported_here": dict(other_clauses),
        "known_findings_hit": {k: len(v) for k, v in known_hits.items()},
        "components": {"real": "parser, dispatcher, handlers, registry, shards, WAL, memtable, flush, segments, compaction, "
                               "read pipeline, response writer, auth, tmpfs",
                       "stub": "sockets/listener loop (in-memory connection object), tokio clock (paused), wall clock and OS "
                               "entropy (interposed at libc), sysinfo pressure monitors (neutralised by config)"},
        "exhaustive": False,
    }
    if not a.no_evidence:
        engine.write_evidence(prop, tier, seed, prof.level, coverage, wall, len(found),
                              getattr(prof, "assumptions", [
                                  "process crashes only (no power loss): bytes handed to write(2) survive",
                                  "single runtime thread + one blocking thread; interleavings beyond FIFO order only via gates",
                                  "interposition covers every mutating libc call std uses (startup self-test)"]))
    print(f"{prop} {tier}: {evaluations} runs ({nbase} base), {stats.get('lifetimes',0)} lifetimes, {len(nontrivial)} distinct non-trivial, "
          f"{wall:.1f}s wall, {runs_per_hour}/h, violations={len(found)} known={sum(len(v) for v in known_hits.values())} harness={len(harness)}")
    sys.exit(rc)


if __name__ == "__main__":
    main()
