"""C11 oracle: segment immutability and whole-segment visibility, decided from the I/O trace
(every filesystem mutation is an event) and from filesystem snapshots.

State tracked across lifetimes, per shard:
  index      set of segment labels named by segments.idx (decoded from the bytes written to the tmp file
             that was renamed into place)
  dirs       segment directories known to exist, with the lifetime that created them
  published  label -> {file: size} as written before the index first named it
"""
import re, struct
from collections import defaultdict

SEG = re.compile(r"^cols/(shard-\d+)/(\d{5})(?:/(.*))?$")
IDX = re.compile(r"^cols/(shard-\d+)/segments\.idx(\.tmp)?$")
RECLAIM = re.compile(r"^cols/(shard-\d+)/\.reclaim/")


def decode_index(raw: bytes):
    """segments.idx = 20-byte binary header + bincode(Vec<SegmentEntry{id:u32, uids:Vec<String>}>)."""
    try:
        off = 20
        (n,) = struct.unpack_from("<Q", raw, off)
        off += 8
        out = {}
        for _ in range(n):
            (sid,) = struct.unpack_from("<I", raw, off)
            off += 4
            (nu,) = struct.unpack_from("<Q", raw, off)
            off += 8
            uids = []
            for _ in range(nu):
                (ln,) = struct.unpack_from("<Q", raw, off)
                off += 8
                uids.append(raw[off:off + ln].decode("utf-8", "replace"))
                off += ln
            out[f"{sid:05d}"] = uids
        return out
    except Exception:
        return None


class SegState:
    def __init__(self):
        self.index = defaultdict(dict)        # shard -> {label: uids}
        self.dirs = defaultdict(dict)         # shard -> {label: lifetime created}
        self.files = defaultdict(dict)        # (shard,label) -> {file: bytes written}
        self.published = {}                   # (shard,label) -> {file: size} at first publication
        self.ever_published = set()
        self.tmp = {}                         # shard -> bytearray of the tmp index being written
        self.snap_hash = {}                   # (shard,label) -> {file: (size,hash)} first snapshot after publication
        self.failed_io = {}                   # (shard,label) -> description of a write/fsync/open of one of its files that failed


def check(plan, results):
    """Returns a list of violation dicts (clause, life, step, detail)."""
    S = SegState()
    viol = []

    def v(clause, li, detail, **kw):
        d = {"clause": clause, "life": li, "step": kw.pop("step", -1), "detail": detail, "text": None,
             "after_restart": li > 0, "after_crash": kw.pop("after_crash", False), "parked": [], "tag": None}
        d.update(kw)
        viol.append(d)

    crashed_prev = False
    for li, (events, code, err) in enumerate(results):
        cur_step = -1
        touched_this_life = set()
        for e in events:
            t = e.get("t")
            if t == "issue":
                cur_step = e["step"]
                continue
            if t == "ro":
                m = SEG.match(e["path"])
                if m and m.group(3):
                    sh, lab = m.group(1), m.group(2)
                    if lab not in S.index[sh] and (sh, lab) not in S.ever_published and S.dirs[sh].get(lab, li) < li:
                        v("read-unpublished", li, f"{e['path']}: read from a segment directory left over from lifetime {S.dirs[sh][lab]} that no index ever named",
                          step=cur_step, after_crash=crashed_prev, label=lab)
                continue
            if t == "fs":
                _snapshot(S, e["files"], li, cur_step, v, crashed_prev)
                continue
            if t != "io":
                continue
            path, op = e["path"], e["op"]
            if e.get("errno"):
                # the operation was failed by the fault plan and did not happen - but a segment one of whose files could
                # not be created, written or synced is incomplete: it must never be named by the index
                mf = SEG.match(path)
                # (only the files that carry the events: column data, their block index, the zone table and the
                # context index; filters, catalogs and ladders are best-effort accelerators - a flush that cannot
                # build one still publishes a fully readable segment, and readers fall back to scanning)
                if mf and mf.group(3) and op in ("open", "write", "fsync") and mf.group(3).rsplit(".", 1)[-1] in ("col", "zfc", "zones", "idx"):
                    S.failed_io.setdefault((mf.group(1), mf.group(2)), f"{op} of {mf.group(3)} failed (errno {e.get('errno')})")
                continue
            mi = IDX.match(path)
            if mi:
                sh, is_tmp = mi.group(1), bool(mi.group(2))
                if is_tmp:
                    if op == "open":
                        S.tmp[sh] = bytearray()
                    elif op == "write":
                        buf = S.tmp.setdefault(sh, bytearray())
                        n = e.get("short", e.get("n", 0))
                        if "hex" in e:
                            buf += bytes.fromhex(e["hex"])[:n]
                        elif "data" in e:
                            buf += e["data"].encode("utf-8")[:n]
                        else:
                            buf += b"\0" * n
                    elif op == "rename" and e.get("to", "").endswith("segments.idx"):
                        new = decode_index(bytes(S.tmp.get(sh, b"")))
                        if new is None:
                            v("index-undecodable", li, f"{path}: renamed into place but content does not decode", step=cur_step)
                            continue
                        for lab in new:
                            if lab not in S.index[sh]:
                                key = (sh, lab)
                                S.ever_published.add(key)
                                S.published.setdefault(key, dict(S.files.get(key, {})))
                                if key in S.failed_io:
                                    v("incomplete-segment", li, f"{sh}/{lab}: named by the index although {S.failed_io[key]}", step=cur_step, label=lab)
                                if lab not in S.dirs[sh]:
                                    v("index-names-missing-dir", li, f"{sh}: index now names {lab} but no such directory was created", step=cur_step, label=lab)
                        S.index[sh] = new
                else:
                    if op in ("open", "write", "truncate", "unlink") and not (op == "open" and not (e.get("creat") or e.get("trunc") or e.get("append"))):
                        v("index-in-place", li, f"{path}: {op} on the live index (only tmp+rename may change it)", step=cur_step)
                continue
            m = SEG.match(path)
            if not m:
                continue
            sh, lab, rest = m.group(1), m.group(2), m.group(3)
            key = (sh, lab)
            named = lab in S.index[sh]
            if rest is None:
                # operation on the segment directory itself
                if op == "mkdir":
                    if lab not in S.dirs[sh]:
                        S.dirs[sh][lab] = li
                elif op in ("rmdir", "rename", "unlink"):
                    if named:
                        v("removed-while-named", li, f"{path}: {op} while the index still names the segment", step=cur_step, label=lab)
                    # the directory is gone: a later directory under the same label is a new segment
                    S.dirs[sh].pop(lab, None)
                    S.files.pop(key, None)
                    S.published.pop(key, None)
                    S.snap_hash.pop(key, None)
                    S.failed_io.pop(key, None)
                continue
            # operation on a file inside a segment directory
            mutating = op in ("write", "truncate", "unlink", "rename", "link") or (
                op == "open" and (e.get("creat") or e.get("trunc") or e.get("append")))
            if not mutating:
                continue
            if op == "write" and lab not in S.dirs[sh]:
                # a write through a descriptor that is still open on a file of a directory that has been removed since
                # (the clean-up of a failed compaction run races the last queued write of that run): it reaches no file
                # any reader can see and belongs to no current segment
                continue
            if named:
                v("mutated-published", li, f"{path}: {op} while the segment is named by the index", step=cur_step, label=lab)
            elif op != "unlink" and lab in S.dirs[sh] and S.dirs[sh][lab] < li and key not in touched_this_life:
                v("dir-reuse", li, f"{path}: {op} into segment directory {lab} that already existed from lifetime {S.dirs[sh][lab]} (not a fresh id)",
                  step=cur_step, after_crash=crashed_prev, label=lab)
            if op != "unlink":
                touched_this_life.add(key)
            if lab not in S.dirs[sh] and op != "unlink":
                S.dirs[sh][lab] = li
            if op == "write":
                S.files[key][rest] = S.files[key].get(rest, 0) + (e.get("short", e.get("n", 0)) if not e.get("errno") else 0)
            elif op == "open" and e.get("trunc"):
                S.files[key][rest] = 0
            elif op == "open":
                S.files[key].setdefault(rest, 0)
            elif op == "unlink":
                S.files[key].pop(rest, None)
                if not named:
                    # clean-up of an unpublished left-over (start-up orphan removal): forget what was there
                    S.published.pop(key, None)
        crashed_prev = code == 137
    return viol


def _snapshot(S, files, li, step, v, crashed_prev):
    by = defaultdict(dict)
    for path, info in files.items():
        m = SEG.match(path)
        if m and m.group(3) and isinstance(info, list):
            by[(m.group(1), m.group(2))][m.group(3)] = tuple(info)
    for sh, idx in S.index.items():
        for lab in idx:
            key = (sh, lab)
            have = by.get(key)
            if have is None:
                v("named-but-absent", li, f"{sh}/{lab}: named by the index but the directory has no files", step=step, after_crash=crashed_prev, label=lab)
                continue
            want = S.published.get(key)
            if want:
                for f, size in want.items():
                    if f not in have:
                        v("incomplete-segment", li, f"{sh}/{lab}: file {f} written before publication is missing", step=step, after_crash=crashed_prev, label=lab)
                    elif have[f][0] == 0 and size > 0:
                        v("incomplete-segment", li, f"{sh}/{lab}/{f}: empty on disk, {size} bytes were written before publication", step=step, after_crash=crashed_prev, label=lab)
            first = S.snap_hash.get(key)
            if first is None:
                S.snap_hash[key] = dict(have)
            elif first != have:
                diff = sorted(set(first.items()) ^ set(have.items()))[:4]
                v("mutated-published", li, f"{sh}/{lab}: file set or content changed while published: {diff}", step=step, label=lab)
    # forget snapshots of segments that are no longer named (retired): a later reuse of the label is a new segment
    for key in list(S.snap_hash):
        if key[1] not in S.index.get(key[0], {}):
            del S.snap_hash[key]
