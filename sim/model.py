"""Reference model: a list of events per store, trivial on purpose."""
import json

MASK64 = (1 << 64) - 1


def _rotl(x, b):
    return ((x << b) | (x >> (64 - b))) & MASK64


def siphash13(data: bytes, k0=0, k1=0):
    """SipHash-1-3 as used by std's DefaultHasher (keys 0,0)."""
    v0 = k0 ^ 0x736f6d6570736575
    v1 = k1 ^ 0x646f72616e646f6d
    v2 = k0 ^ 0x6c7967656e657261
    v3 = k1 ^ 0x7465646279746573

    def rnd():
        nonlocal v0, v1, v2, v3
        v0 = (v0 + v1) & MASK64; v1 = _rotl(v1, 13); v1 ^= v0; v0 = _rotl(v0, 32)
        v2 = (v2 + v3) & MASK64; v3 = _rotl(v3, 16); v3 ^= v2
        v0 = (v0 + v3) & MASK64; v3 = _rotl(v3, 21); v3 ^= v0
        v2 = (v2 + v1) & MASK64; v1 = _rotl(v1, 17); v1 ^= v2; v2 = _rotl(v2, 32)

    n = len(data)
    end = n - (n % 8)
    for i in range(0, end, 8):
        m = int.from_bytes(data[i:i + 8], "little")
        v3 ^= m
        rnd()
        v0 ^= m
    b = (n & 0xff) << 56
    tail = data[end:]
    b |= int.from_bytes(tail, "little") if tail else 0
    v3 ^= b
    rnd()
    v0 ^= b
    v2 ^= 0xff
    rnd(); rnd(); rnd()
    return (v0 ^ v1 ^ v2 ^ v3) & MASK64


def shard_of(context_id: str, n: int) -> int:
    # str::hash writes the bytes followed by 0xff
    return siphash13(context_id.encode("utf-8") + b"\xff") % n


def event_id_shard(eid: int) -> int:
    return (eid >> 12) & 0x3ff


def event_id_millis(eid: int) -> int:
    return (eid >> 22) + 1_609_459_200_000


def event_id_seq(eid: int) -> int:
    return eid & 0xfff


class Ev:
    __slots__ = ("k", "type", "ctx", "payload", "ts", "life", "step", "state", "eid", "idx", "stored", "vclass")

    def __init__(self, k, type_, ctx, payload, ts, life, step, idx, stored=None):
        self.k = k
        self.type = type_
        self.ctx = ctx
        self.payload = payload        # value as issued
        self.stored = stored if stored is not None else payload  # value expected back (normalised)
        self.ts = ts
        self.life = life
        self.step = step
        self.state = "must"           # must | may (in flight at a crash) | gone (resolved absent)
        self.eid = None
        self.vclass = None
        self.idx = idx                # global apply index

    def __repr__(self):
        return f"Ev(k={self.k},{self.type},{self.ctx},{self.state})"


class Model:
    def __init__(self, shard_count=1):
        self.schemas = {}     # type -> {field: spec}
        self.events = []      # apply order
        self.bykey = {}
        self.shard_count = shard_count

    def define(self, t, schema):
        self.schemas[t] = schema

    def add(self, ev):
        self.events.append(ev)
        self.bykey[ev.k] = ev

    def live(self, t=None, ctx=None, states=("must",)):
        return [e for e in self.events
                if e.state in states and (t is None or e.type == t) and (ctx is None or e.ctx == ctx)]
