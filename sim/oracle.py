"""Walk a run's logs with the reference model and evaluate clause-split oracles.

Every violation carries a clause name; properties select the clauses that state them.
Selection-based clauses never depend on an aggregate (DESIGN §7)."""
from collections import Counter, defaultdict
from . import resp as R
from .model import Model, Ev, shard_of, event_id_shard


class HarnessError(Exception):
    pass


def _num_eq(a, b):
    if isinstance(a, bool) or isinstance(b, bool):
        return a is b
    if isinstance(a, (int, float)) and isinstance(b, (int, float)):
        return float(a) == float(b) and (abs(a) < 2**53 or int(a) == int(b))
    return a == b


class Walker:
    def __init__(self, plan, results, opts=None):
        self.plan = plan
        self.results = results
        self.opts = opts or {}
        cfg = plan.get("config") or {}
        self.nshards = cfg.get("shard_count", 1)
        wal = cfg.get("wal") or {}
        self.wal_durable = wal.get("flush_each_write", True)
        self.model = Model(self.nshards)
        self.viol = []
        self.stats = Counter()
        self.eid_of = {}          # k -> event id first observed
        self.k_of_eid = {}        # event id -> k
        self.ctx_shard = {}       # ctx -> shard tag observed
        self.checkpoint = {}      # type -> set of k of the last selection in this checkpoint
        self.restarts = 0
        self.crashed_prev = False
        self.life_kind = []       # per lifetime: 'clean' | 'crash'
        self.reads = []           # recorded (life, step, meta, resp) for cross-checks
        self.parked_at = {}       # (life, step) -> sorted gate names parked when the step was issued
        self.cur_tag = None
        self.cur_feat = None
        self.rebased = {}
        self.confirmed_types = set()
        self.compactions = 0          # compaction rounds triggered so far in this history (all lifetimes)
        self.comp_seen = False        # a compaction hand-over gate was reached (also by a round that was then killed)
        self.comp_at = {}
        self.flush_seen = False       # some segment has been published by a flush (this or an earlier lifetime)
        self.flushed_at = {}
        self.publish_points = {}      # shard -> [(life, step during/after which a flush published a segment)]
        self._scan_step = -1
        self.clock_regressed = False  # some lifetime started at or before the latest wall-clock value seen earlier
        self.max_wall = None
        self.samples = []

    # ------------------------------------------------------------ helpers
    def v(self, clause, li, si, detail, **kw):
        text = None
        try:
            text = self.plan["lifetimes"][li]["steps"][si].get("text")
        except Exception:
            pass
        d = {"clause": clause, "life": li, "step": si, "detail": detail, "text": text,
             "after_restart": li > 0, "after_crash": self.crashed_prev,
             "parked": self.parked_at.get((li, si), []), "tag": self.cur_tag, "feat": self.cur_feat,
             "compacted": self.compactions > 0 or self.comp_at.get((li, si), False) or (si < 0 and self.comp_seen), "flush_parked": any(g.startswith("flush") for g in self.parked_at.get((li, si), [])),
             "clock_regressed": self.clock_regressed,
             "flushed": self.flushed_at.get((li, si), self.flush_seen)}
        d.update(kw)
        self.viol.append(d)

    # ------------------------------------------------------------ main walk
    def run(self):
        for li, life in enumerate(self.plan["lifetimes"]):
            if li >= len(self.results):
                break
            events, code, err = self.results[li]
            self.walk_life(li, life, events, code, err)
            if getattr(self, "aborted", False):
                break
        self.finish()
        return self.viol, self.stats

    def finish(self):
        # C18: within a shard, ids strictly increase in apply order (events whose id was observed)
        by_shard = defaultdict(list)
        for e in self.model.events:
            if e.eid is not None and e.state == "must":
                by_shard[event_id_shard(e.eid)].append(e)
        for sh, evs in by_shard.items():
            evs.sort(key=lambda e: e.idx)
            for a, b in zip(evs, evs[1:]):
                if not (a.eid < b.eid):
                    self.v("id-order", b.life, b.step, f"shard {sh}: k={b.k} (applied after k={a.k}) has id {b.eid} <= {a.eid}", k=b.k)
                    break
        self.stats["ids_observed"] += sum(len(v) for v in by_shard.values())

    def is_unflushed(self, ev, li, si):
        """True if no flush of the event's shard published a segment between the STORE of `ev` and the read at
        (li, si); a publication during the read's own step counts as flushed (undecidable, so not claimed)."""
        from .model import shard_of
        sh = shard_of(ev.ctx, self.nshards)
        return not any((ev.life, ev.step) <= p <= (li, si) for p in self.publish_points.get(sh, []))

    def walk_life(self, li, life, events, code, err):
        self._scan_step = -1
        resp_by_step, issue_by_step, stuck = {}, {}, set()
        crash = None
        end = None
        ready = False
        parked_now = {}
        for e in events:
            t = e.get("t")
            if t == "gate" and str(e.get("name", "")).startswith("compact."):
                self.comp_seen = True
            if t == "gate" and e.get("name") == "flush.published":
                self.flush_seen = True
                try:
                    sh = int(str(e.get("key", "s0/")).split("/")[0][1:])
                    self.publish_points.setdefault(sh, []).append((li, self._scan_step))
                except ValueError:
                    pass
            if t == "issue":
                self._scan_step = e["step"]
            if t == "gate" and e.get("parked"):
                parked_now[e.get("rule")] = e.get("name")
            elif t == "release":
                parked_now.pop(e.get("rule"), None)
            elif t == "issue":
                self.parked_at[(li, e["step"])] = sorted(parked_now.values())
                self.comp_at[(li, e["step"])] = self.comp_seen
                self.flushed_at[(li, e["step"])] = self.flush_seen
            if t == "resp":
                resp_by_step[e["step"]] = e
            elif t == "issue":
                issue_by_step[e["step"]] = e
            elif t == "stuck":
                stuck.add(e["step"])
            elif t == "crash":
                crash = e
            elif t == "end":
                end = e
            elif t == "ready":
                ready = True
            elif t == "harness-error" or t == "garbled":
                raise HarnessError(f"life {li}: {e}")
        planned_end = life.get("end")
        how = planned_end if isinstance(planned_end, str) else (planned_end or {}).get("how", "kill")
        planned_crash = isinstance(planned_end, dict) and (
            "crash_before_io" in planned_end or "crash_after_io" in planned_end)
        hold_crash = any(h.get("crash") for h in life.get("holds", []))
        torn = any(f.get("then_crash") for f in life.get("io_faults", []))
        if code == 0:
            if not end or end.get("how") not in ("shutdown", "stop"):
                raise HarnessError(f"life {li}: exit 0 without end record")
            self.life_kind.append("clean")
        elif code == 137:
            if crash is None and not (end and end.get("how") == "kill"):
                raise HarnessError(f"life {li}: exit 137 without crash/kill record: {err[-300:]}")
            self.life_kind.append("crash")
        elif code == 101 and not ready and li > 0:
            # the server panicked while starting up on the directories a previous lifetime left behind: the store
            # is unusable (every applied event is unreadable). A property violation, not a harness problem.
            import re as _re
            m = _re.search(r"panicked at [^\n]*\n[^\n]*", err or "")
            self.life_kind.append("crash")
            self.v("restart-panic", li, 0, f"start-up panicked: {(m.group(0) if m else err[-200:])[:300]}")
            self.aborted = True
            return
        else:
            # anything else (panic=101, signal, timeout) is not a planned outcome
            import re as _re
            m = _re.search(r"panicked at [^\n]*\n[^\n]*", err or "")
            raise HarnessError(f"life {li}: unexpected exit {code}: {(m.group(0) if m else '')[:400]} ... {err[-200:]}")
        if crash is not None and not (planned_crash or hold_crash or torn):
            raise HarnessError(f"life {li}: unplanned crash record {crash}")
        self.stats["lifetimes"] += 1
        if crash is not None:
            self.stats["crash:" + crash.get("how", "?")] += 1
        elif how == "kill":
            self.stats["crash:kill_idle"] += 1
        if li > 0:
            self.restarts += 1
        if not ready:
            # died during start-up (recovery); nothing was served in this lifetime
            self.stats["crash_in_startup"] += 1

        start_wall = life.get("wall_clock_ms")
        if start_wall is not None:
            if self.max_wall is not None and start_wall <= self.max_wall:
                self.clock_regressed = True
            walls = [e["wall_ms"] for e in events if e.get("t") == "issue" and "wall_ms" in e]
            self.max_wall = max([start_wall] + walls + ([self.max_wall] if self.max_wall is not None else []))
        self.checkpoint = {}
        steps = life.get("steps", [])
        # A crash (not a kill while idle) interrupts the step that was issued last: even if its response
        # was already written, background work it started (the WAL append of an acknowledged STORE) may
        # not have run. Such a STORE is acknowledged but not yet "applied" in the property's sense.
        self.inflight_step = max(issue_by_step) if (crash is not None and issue_by_step) else None
        for si, st in enumerate(steps):
            meta = st.get("meta") or {}
            kind = meta.get("kind")
            if st.get("op", "cmd") != "cmd":
                if kind == "checkpoint":
                    self.checkpoint = {}
                if st.get("op") == "advance" and any(e.get("t") == "advanced" and e.get("step") == si for e in events):
                    iv = (self.plan.get("config") or {}).get("compaction_interval", 3600) * 1000
                    if st.get("ms", 0) >= iv:
                        self.compactions += 1
                continue
            if si not in issue_by_step:
                break  # never issued: the process died before
            issue = issue_by_step[si]
            re_ = resp_by_step.get(si)
            r = R.parse(re_.get("body"), re_.get("stage")) if re_ else None
            if r is not None and r.stage == "panic":
                self.v("panic", li, si, re_.get("body"))
                continue
            self.stats["cmd:" + str(kind)] += 1
            self.cur_tag = meta.get("tag")
            self.cur_feat = meta.get("feat")
            if self.cur_feat:
                self.stats["feat:" + self.cur_feat] += 1
            if kind in ("store", "define", "flush"):
                self.checkpoint = {}
            h = getattr(self, "on_" + str(kind), None)
            if h:
                h(li, si, st, meta, issue, r)
        # end of lifetime bookkeeping
        self.crashed_prev = self.life_kind[-1] == "crash"
        if self.crashed_prev and not self.wal_durable:
            # buffered WAL: anything acknowledged in this lifetime may be lost (prefix rule checked on read)
            for e in self.model.events:
                if e.life == li and e.state == "must":
                    e.state = "may"
                    self.stats["buffered_may"] += 1

    # ------------------------------------------------------------ writes
    def on_define(self, li, si, st, meta, issue, r):
        if r is not None and r.ok() and si != getattr(self, "inflight_step", None):
            self.confirmed_types.add(meta["type"])
        if r is not None and r.ok():
            if meta["type"] not in self.model.schemas:
                self.model.define(meta["type"], meta["schema"])
        elif r is None:
            self.model.schemas.setdefault(meta["type"], meta["schema"])  # in flight; tolerated either way

    def on_store(self, li, si, st, meta, issue, r):
        ts = issue["wall_ms"] // 1000
        if r is None:
            if meta.get("valid", True):
                ev = Ev(meta["k"], meta["type"], meta["ctx"], meta["payload"], ts, li, si,
                        len(self.model.events), meta.get("stored"))
                ev.state = "may"
                self.model.add(ev)
                self.stats["store_inflight"] += 1
            return
        if r.kind == "plain" and r.status == 200 and si == getattr(self, "inflight_step", None):
            ev = Ev(meta["k"], meta["type"], meta["ctx"], meta["payload"], ts, li, si,
                    len(self.model.events), meta.get("stored"))
            ev.state = "may"
            self.model.add(ev)
            self.stats["store_acked_not_applied_at_crash"] += 1
            return
        if r.kind == "plain" and r.status == 200:
            if not meta.get("valid", True):
                self.v("accepted-invalid", li, si, f"invalid payload accepted: {meta['payload']}", vclass=meta.get("vclass"), feat=meta.get("vclass"))
            elif meta["type"] not in self.model.schemas:
                # every DEFINE of this type so far was answered with an error: the type is undefined
                self.v("accepted-invalid", li, si, f"STORE for event type {meta['type']!r} accepted although no DEFINE of it succeeded",
                       vclass="invalid:undefined-after-failed-define", feat="invalid:undefined-after-failed-define")
                # it is in the store now; track it so that later reads are not reported as foreign
            ev = Ev(meta["k"], meta["type"], meta["ctx"], meta["payload"], ts, li, si,
                    len(self.model.events), meta.get("stored"))
            ev.vclass = meta.get("vclass")
            if ev.vclass:
                self.stats["vclass:" + ev.vclass] += 1
            self.model.add(ev)
            self.stats["store_acked"] += 1
        else:
            undefined = meta["type"] not in self.confirmed_types
            if meta.get("valid", True) and not self.opts.get("faulty") and not undefined:
                self.v("rejected-valid", li, si, f"valid STORE rejected: {r}", vclass=meta.get("vclass"))
            self.stats["store_rejected"] += 1

    def on_flush(self, li, si, st, meta, issue, r):
        if r is not None and not r.ok() and not self.opts.get("faulty"):
            self.v("flush-error", li, si, f"{r}")

    # ------------------------------------------------------------ reads
    def _rows(self, li, si, r, what):
        if r is None:
            return None
        if r.kind != "stream":
            self.v("read-error", li, si, f"{what}: {r}")
            return None
        if not r.frames_ok or r.row_count != len(r.rows):
            self.v("frames", li, si, f"{what}: end row_count={r.row_count} but {len(r.rows)} rows / bad framing")
        return r.dicts()

    def _check_row(self, li, si, row, ev):
        bad = []
        if row.get("context_id") != ev.ctx:
            bad.append(("context_id", row.get("context_id"), ev.ctx))
        if row.get("event_type") != ev.type:
            bad.append(("event_type", row.get("event_type"), ev.type))
        if "timestamp" in row and row["timestamp"] != ev.ts:
            bad.append(("timestamp", row.get("timestamp"), ev.ts))
        for f, val in ev.stored.items():
            if f in row and not _num_eq(row[f], val):
                bad.append((f, row[f], val))
        if bad:
            self.v("wrong-value", li, si, f"k={ev.k}: " + "; ".join(f"{f}: got {g!r} want {w!r}" for f, g, w in bad), k=ev.k,
                   vclass=ev.vclass, fields=sorted(set(f for f, _, _ in bad)))
        eid = row.get("event_id")
        if eid is not None:
            self._check_eid(li, si, ev, eid)

    def _check_eid(self, li, si, ev, eid):
        prev = self.eid_of.get(ev.k)
        if prev is None:
            self.eid_of[ev.k] = eid
            other = self.k_of_eid.get(eid)
            if other is not None and other != ev.k:
                self.v("id-reuse", li, si, f"event id {eid} carried by k={other} and k={ev.k}", k=ev.k)
            self.k_of_eid.setdefault(eid, ev.k)
            sh = event_id_shard(eid)
            want = self.ctx_shard.setdefault(ev.ctx, sh)
            if want != sh:
                self.v("shard-moved", li, si, f"context {ev.ctx!r}: shard tag {sh} but earlier {want}", k=ev.k)
            ev.eid = eid
        elif prev != eid:
            self.v("id-change", li, si, f"k={ev.k}: event id {eid} but earlier {prev}", k=ev.k)

    def _membership(self, li, si, rows, expect_must, expect_may, what, resolve):
        """rows: list of dict rows carrying 'k'. Returns the list of k in arrival order."""
        got = []
        seen = Counter()
        for row in rows:
            k = row.get("k")
            got.append(k)
            seen[k] += 1
            ev = self.model.bykey.get(k)
            if ev is None or ev.state == "gone":
                self.v("foreign-row", li, si, f"{what}: row k={k!r} was never applied or was lost before: {row}", k=k)
                continue
            self._check_row(li, si, row, ev)
        for k, n in seen.items():
            if n > 1:
                self.v("duplicate-row", li, si, f"{what}: k={k} returned {n} times", k=k)
        rebase = (self.opts.get("rebase_after_restart") and resolve and li > 0 and what not in self.rebased.get(li, set()))
        for ev in expect_must:
            if seen[ev.k] == 0:
                if rebase and ev.life < li:
                    # this property is evaluated relative to what survived the restart (durability is C01's business)
                    ev.state = "gone"
                    self.stats["rebased_lost_at_restart"] += 1
                    continue
                self.v("lost", li, si, f"{what}: applied event k={ev.k} ({ev.type}/{ev.ctx}, stored in lifetime {ev.life}) missing", k=ev.k)
        if rebase:
            self.rebased.setdefault(li, set()).add(what)
        if resolve:
            for ev in expect_may:
                if seen[ev.k] > 0:
                    ev.state = "must"
                    self.stats["may_recovered"] += 1
                else:
                    ev.state = "gone"
                    self.stats["may_lost"] += 1
        self.stats["rows_checked"] += len(rows)
        return got

    def on_select(self, li, si, st, meta, issue, r):
        t = meta["type"]
        rows = self._rows(li, si, r, f"QUERY {t}")
        if rows is None:
            return
        must = self.model.live(t, states=("must",))
        may = self.model.live(t, states=("may",))
        # rows of other types must not appear
        for row in rows:
            if row.get("event_type") != t:
                self.v("foreign-row", li, si, f"QUERY {t}: row of type {row.get('event_type')!r}: {row}", k=row.get("k"))
        got = self._membership(li, si, [x for x in rows if x.get("event_type") == t], must, may, f"QUERY {t}", True)
        if not self.wal_durable and self.crashed_prev:
            self._prefix_rule(li, si, t)
        self.checkpoint[t] = set(got)
        self.stats["reads:select"] += 1
        self._cur_atoms = []
        _invariance(self, li, si, st.get("text"), sorted((x for x in got if x is not None), key=str))
        if len(self.samples) < 3:
            self.samples.append({"life": li, "step": si, "text": st.get("text"), "rows": len(rows)})

    def _prefix_rule(self, li, si, t):
        # buffered WAL after a crash: per shard the surviving events of a lifetime form a prefix of its apply order
        by = defaultdict(list)
        for e in self.model.events:
            if e.type == t and e.state in ("must", "gone"):
                by[(shard_of(e.ctx, self.nshards), e.life)].append(e)
        for (sh, lf), evs in by.items():
            gone_seen = None
            for e in evs:
                if e.state == "gone":
                    gone_seen = e
                elif gone_seen is not None and e.life == gone_seen.life:
                    self.v("hole", li, si, f"buffered WAL: k={e.k} survived but earlier k={gone_seen.k} of the same shard/lifetime did not", k=e.k)
                    break

    def on_count(self, li, si, st, meta, issue, r):
        t = meta["type"]
        if r is None:
            return
        if r.kind != "stream":
            self.v("read-error", li, si, f"COUNT {t}: {r}")
            return
        val = r.rows[0][0] if r.rows else 0
        self.stats["reads:count"] += 1
        self._cur_atoms = []
        _invariance(self, li, si, st.get("text"), val, "count")
        sel = self.checkpoint.get(t)
        if sel is not None and val != len(sel):
            self.v("count-vs-selection", li, si, f"QUERY {t} COUNT = {val} but the selection in the same state returned {len(sel)} distinct events", got=val, want=len(sel))

    def on_replay(self, li, si, st, meta, issue, r):
        ctx, t = meta["ctx"], meta.get("type")
        what = st.get("text")
        rows = self._rows(li, si, r, what)
        if rows is None:
            return
        must = self.model.live(t, ctx, states=("must",))
        may = self.model.live(t, ctx, states=("may",))
        since = meta.get("since")
        if since is not None:
            # SINCE t: events whose timestamp is at or after t (inclusive), wherever they are stored
            must = [e for e in must if e.ts >= since]
            may = [e for e in may if e.ts >= since]
        for row in rows:
            if since is not None and isinstance(row.get("timestamp"), int) and row["timestamp"] < since:
                self.v("replay-foreign", li, si, f"{what}: row before SINCE: {row}", k=row.get("k"))
            if row.get("context_id") != ctx or (t and row.get("event_type") != t):
                self.v("replay-foreign", li, si, f"{what}: row outside the scope: {row}", k=row.get("k"))
        before = len(self.viol)
        got = self._membership(li, si, rows, must, may, what, False)
        # rename membership clauses so that REPLAY-specific findings stay separate from QUERY ones
        for d in self.viol[before:]:
            if d["clause"] in ("lost", "duplicate-row", "foreign-row"):
                d["clause"] = "replay-" + d["clause"].replace("-row", "")
        order = [self.model.bykey[k].idx for k in got if k in self.model.bykey]
        if order != sorted(order):
            self.v("replay-order", li, si, f"{what}: returned k order {got}, append order {[e.k for e in sorted((self.model.bykey[k] for k in set(got) if k in self.model.bykey), key=lambda e: e.idx)]}")
        self.stats["reads:replay"] += 1
        self._cur_atoms = []
        _invariance(self, li, si, what, sorted((x for x in got if x is not None), key=str), "membership")


# ====================================================================== query oracles
from . import qmodel as Q


def _version(self):
    c = Counter(e.state for e in self.model.events)
    return (c.get("must", 0), c.get("may", 0), c.get("gone", 0))


def _invariance(self, li, si, text, answer, what="answer"):
    """The same question on the same history must get the same answer in every layout/lifetime."""
    if not hasattr(self, "inv"):
        self.inv = {}
    key = (text, _version(self))
    prev = self.inv.get(key)
    if prev is None:
        self.inv[key] = (answer, li, si)
    elif prev[0] != answer:
        self.v("layout-variance", li, si,
               f"{text}: {what} {answer} differs from {prev[0]} given at life {prev[1]} step {prev[2]} for the same history",
               atoms=getattr(self, "_cur_atoms", None), inv_kind=what)
    self.stats["invariance_checks"] += 1


def on_query(self, li, si, st, meta, issue, r):
    q = meta["q"]
    t = q["type"]
    what = st.get("text")
    self._cur_atoms = sorted(set(str(a) for a in Q.pred_atoms(q["where"]))) if q.get("where") else []
    rows = self._rows(li, si, r, what)
    if rows is None:
        return
    must = Q.select(self.model.live(t, states=("must",)), q)
    may = Q.select(self.model.live(t, states=("may",)), q)
    allowed = {e.k for e in must} | {e.k for e in may}
    got, seen = [], Counter()
    for row in rows:
        k = row.get("k")
        if "k" not in row:
            # RETURN list without k: identify the row by its event id
            k = self.k_of_eid.get(row.get("event_id"))
        got.append(k)
        seen[k] += 1
        ev = self.model.bykey.get(k)
        if ev is None or ev.state == "gone":
            self.v("foreign-row", li, si, f"{what}: row {row} matches no applied event", k=k, atoms=self._cur_atoms)
            continue
        if k not in allowed:
            self.v("query-extra", li, si, f"{what}: returned k={k} which does not satisfy the query (stored {ev.stored}, ctx {ev.ctx}, ts {ev.ts})", k=k, atoms=self._cur_atoms)
        self._check_row(li, si, row, ev)
    for k, n in seen.items():
        if n > 1:
            self.v("duplicate-row", li, si, f"{what}: k={k} returned {n} times", k=k, atoms=self._cur_atoms)
    lim = q.get("limit")
    if lim is None:
        for e in must:
            if seen[e.k] == 0:
                self.v("query-missing", li, si, f"{what}: matching event k={e.k} (stored {e.stored}, ctx {e.ctx}) not returned", k=e.k, atoms=self._cur_atoms)
        _invariance(self, li, si, what, sorted((x for x in got if x is not None), key=str))
    else:
        want_n = min(lim, len(must))
        if not may and len(set(got)) != want_n:
            self.v("limit-count", li, si, f"{what}: {len(set(got))} distinct rows, expected min({lim}, {len(must)})", atoms=self._cur_atoms)
    if q.get("ret") is not None and r is not None and r.columns is not None:
        schema = self.model.schemas.get(t, {})
        want_cols = ["context_id", "event_type", "timestamp", "event_id"] + [f for f in dict.fromkeys(q["ret"]) if f in schema]
        if q["ret"] and list(r.columns) != want_cols and sorted(r.columns) != sorted(want_cols):
            self.v("return-columns", li, si, f"{what}: columns {r.columns}, expected {want_cols}")
    self.last_sel = getattr(self, "last_sel", {})
    self.last_sel[meta.get("fkey")] = [x for x in got if x is not None]
    self.stats["reads:query"] += 1


def _norm_cell(v):
    if isinstance(v, bool):
        return str(v).lower()
    if isinstance(v, float) and v == int(v) and abs(v) < 2**53:
        return str(int(v))
    return "null" if v is None else str(v)


def _table(r, q):
    """Decode an aggregate response into {group key (tuple of str): {col: value}}."""
    nkey = (1 if q.get("per") else 0) + len(q.get("by") or [])
    out = {}
    dup = []
    for row in r.rows:
        key = tuple(_norm_cell(x) for x in row[:nkey])
        if key in out:
            dup.append(key)
        out[key] = dict(zip(r.columns[nkey:], row[nkey:]))
    return out, dup


def _metrics_equal(a, b, col=""):
    # b is the model's fold; MIN / MAX / AVG over no non-null value has no value. The engine renders that as null or as
    # an empty cell ("") for MIN / MAX and as 0.0 for AVG (sum 0 over count 0); the property does not say which marker
    # is right, so those markers - and nothing else (a number, a stale minimum) - are accepted
    if b is None:
        return a is None or a == "" or (col.startswith("avg_") and a == 0)
    if a is None:
        return False
    try:
        return abs(float(a) - float(b)) <= 1e-9 * max(1.0, abs(float(a)), abs(float(b)))
    except (TypeError, ValueError):
        return str(a) == str(b)


def on_agg(self, li, si, st, meta, issue, r):
    q = meta["q"]
    t = q["type"]
    what = st.get("text")
    if r is None:
        return
    if r.kind != "stream":
        self.v("read-error", li, si, f"{what}: {r}")
        return
    atoms = sorted(set([m[0] for m in q["metrics"]] + (["BY"] if q.get("by") else []) + (["PER"] if q.get("per") else [])
                       + (["LIMIT"] if q.get("limit") is not None else []) + (["WHERE"] if q.get("where") else [])
                       + (["FOR"] if q.get("ctx") else [])))
    got, dup = _table(r, q)
    for key in dup:
        self.v("agg-duplicate-group", li, si, f"{what}: group {key} reported twice", atoms=atoms)
    has_may = any(e.state == "may" for e in self.model.live(t, states=("may",)))
    # (1) self-consistency with the selection issued in the same state
    sel = getattr(self, "last_sel", {}).get(meta.get("fkey"))
    refs = []
    if sel is not None:
        evs = [self.model.bykey[k] for k in dict.fromkeys(sel) if k in self.model.bykey]
        refs.append(("agg-vs-selection", Q.aggregate(evs, q)))
    if not has_may:
        refs.append(("agg-vs-model", Q.aggregate(Q.select(self.model.live(t, states=("must",)), q), q)))
    for clause, ref in refs:
        want = {tuple(_norm_cell(x) for x in k): v for k, v in ref.items()}
        if not (q.get("by") or q.get("per")) and list(ref.keys()) == [()] and all(
                v in (0, None) for v in ref[()].values()) and len(got) <= 1:
            # aggregate over an empty selection without grouping: an empty table and a single row of
            # zero / null metrics are both acceptable renderings
            if not got or all(_metrics_equal(got[k].get(c), w, c) or got[k].get(c) in (0, None) for k in got for c, w in ref[()].items()):
                continue
        lim = q.get("limit")
        if lim is not None:
            off = q.get("offset") or 0
            if len(got) != min(lim, max(0, len(want) - off)):
                self.v(clause, li, si, f"{what}: {len(got)} groups, expected min({lim}, {len(want)} - {off})", atoms=atoms, sub="limit-groups")
            keys = [k for k in got if k in want]
            if len(keys) != len(got):
                self.v(clause, li, si, f"{what}: unknown groups {[k for k in got if k not in want]}", atoms=atoms, sub="groups")
        else:
            if set(got) != set(want):
                self.v(clause, li, si, f"{what}: groups {sorted(got)} expected {sorted(want)}", atoms=atoms, sub="groups")
            keys = [k for k in got if k in want]
        for k in keys:
            for col, wv in want[k].items():
                if col not in got[k]:
                    self.v(clause, li, si, f"{what}: metric column {col} missing (columns {r.columns})", atoms=atoms, sub="columns")
                elif not _metrics_equal(got[k][col], wv, col):
                    self.v(clause, li, si, f"{what}: group {k} {col} = {got[k][col]!r}, fold over the selected events gives {wv!r}", atoms=atoms, sub="value", metric=col.split("_")[0])
    if q.get("limit") is None:
        self._cur_atoms = atoms
        _invariance(self, li, si, what, sorted((k, sorted((c, _norm_cell(v)) for c, v in m.items())) for k, m in got.items()), "table")
    self.stats["reads:agg"] += 1


def on_ordered(self, li, si, st, meta, issue, r):
    q = meta["q"]
    t = q["type"]
    what = st.get("text")
    atoms = ["ORDER", "DESC" if q.get("desc") else "ASC"] + (["LIMIT"] if q.get("limit") is not None else []) + (["OFFSET"] if q.get("offset") else [])
    rows = self._rows(li, si, r, what)
    if rows is None:
        return
    if any(e.state == "may" for e in self.model.live(t, states=("may",))):
        return
    must = Q.select(self.model.live(t, states=("must",)), q)
    allowed = {e.k for e in must}
    field = q["order"]
    got_keys, seen = [], Counter()
    for row in rows:
        k = row.get("k")
        seen[k] += 1
        ev = self.model.bykey.get(k)
        if ev is None or k not in allowed:
            self.v("order-extra", li, si, f"{what}: returned k={k} which does not satisfy the query", k=k, atoms=atoms)
            continue
        self._check_row(li, si, row, ev)
        got_keys.append(Q.field_value(ev, field))
    for k, n in seen.items():
        if n > 1:
            self.v("duplicate-row", li, si, f"{what}: k={k} returned {n} times", k=k, atoms=atoms)
    srt = sorted(got_keys, key=Q.sort_key_value, reverse=bool(q.get("desc")))
    if got_keys != srt:
        self.v("order-unsorted", li, si, f"{what}: sort keys come back as {got_keys}", atoms=atoms)
    full = Q.ordered_keys(must, field, bool(q.get("desc")))
    m = q.get("offset") or 0
    n = q.get("limit")
    want = full[m:] if n is None else full[m:m + n]
    if sorted(got_keys, key=Q.sort_key_value) != sorted(want, key=Q.sort_key_value):
        # cause-class attribute: a missing sort key that only events still in memory carry cannot have been lost by a
        # pruning decision over on-disk zones
        miss = Counter(map(repr, want)) - Counter(map(repr, got_keys))
        missing_unflushed = False
        for key in miss:
            carriers = [e for e in must if repr(Q.field_value(e, field)) == key]
            if carriers and all(self.is_unflushed(e, li, si) for e in carriers):
                missing_unflushed = True
        self.v("order-slice", li, si, f"{what}: sort keys {got_keys}, positions {m}..{'' if n is None else m+n} of the order are {want}", atoms=atoms,
               missing_unflushed=missing_unflushed)
    self._cur_atoms = atoms
    _invariance(self, li, si, what, [str(x) for x in sorted(got_keys, key=Q.sort_key_value)], "sort keys")
    self.stats["reads:ordered"] += 1


def on_expect_error(self, li, si, st, meta, issue, r):
    if r is None:
        return
    if r.kind == "stream" or (r.kind == "plain" and r.status == 200):
        self.v(meta.get("clause", "expected-error"), li, si, f"{st.get('text')}: expected an error response, got {r}")
    self.stats["reads:expect_error"] += 1


Walker.on_query = on_query
Walker.on_agg = on_agg
Walker.on_ordered = on_ordered
Walker.on_expect_error = on_expect_error


# ====================================================================== C13 oracle

def on_auth(self, li, si, st, meta, issue, r):
    self.stats["auth_requests"] += 1
    if r is None:
        return
    ok = r.stage == "auth-ok"
    if ok and not meta.get("expect_ok", True):
        self.v("revoked-still-works", li, si, f"AUTH of revoked user {meta.get('user')} succeeded", feat="AUTH")


def on_authcmd(self, li, si, st, meta, issue, r):
    self.stats["auth_requests"] += 1
    if r is None or "authenticated" not in meta:
        return
    executed = r.ok() and r.stage == "dispatch"
    user, form, bad, kind = meta.get("user"), meta.get("form"), meta.get("bad"), meta.get("cmdkind")
    feat = f"{kind}:{form}" + (f":{bad}" if bad else "")
    self.stats["auth:" + ("executed" if executed else "refused")] += 1
    authenticated = meta["authenticated"]
    if form == "token" and bad is None:
        # a token is live until its expiry on the simulated wall clock and while its user is active
        age_ms = issue["wall_ms"] - meta.get("token_wall", issue["wall_ms"])
        if age_ms > meta.get("expiry_s", 60) * 1000 + 2000:
            if executed:
                self.v("expired-token-works", li, si, f"{st.get('text')[:120]}: session token used {age_ms/1000:.0f}s after AUTH (expiry {meta.get('expiry_s')}s) was accepted", feat=feat, user=user)
            return
        if age_ms > meta.get("expiry_s", 60) * 1000 - 2000:
            return   # too close to the boundary to call
    if form == "conn" and not meta.get("active", True) and bad is None:
        # documented: previously authenticated connections may keep working until they disconnect
        return
    if not authenticated:
        if executed:
            clause = "revoked-still-works" if (bad is None and not meta.get("active", True)) else "unauthenticated-executed"
            self.v(clause, li, si, f"{st.get('text')[:160]}: executed although the credentials are invalid ({bad or 'revoked user'})", feat=feat, user=user)
        return
    if not meta["authorized"] and executed:
        need = meta.get("need")
        clause = "nonadmin-admin-op" if need == "admin" else ("unauthorized-write" if isinstance(need, list) and need[0] == "write" else "unauthorized-read")
        self.v(clause, li, si, f"{st.get('text')[:160]}: user {user!r} lacks {need} but the command executed: {str(r)[:160]}", feat=feat, user=user)


Walker.on_auth = on_auth
Walker.on_authcmd = on_authcmd


# ====================================================================== C14 oracle

def on_remember(self, li, si, st, meta, issue, r):
    if r is None:
        return
    self.mats = getattr(self, "mats", {})
    ok = r.kind == "plain" and r.status == 200
    if meta["name"] in self.mats:
        if ok:
            self.v("remember-duplicate-accepted", li, si, f"{st.get('text')}: name already in use but REMEMBER succeeded")
        return
    if ok:
        self.mats[meta["name"]] = True
    self.stats["cmd:remember_ok" if ok else "cmd:remember_failed"] += 1


def on_show(self, li, si, st, meta, issue, r):
    what = st.get("text")
    self.mats = getattr(self, "mats", {})
    if meta["name"] not in self.mats:
        return
    if r is None:
        return
    if r.kind != "stream":
        self.v("show-error", li, si, f"{what}: {r}")
        return
    rows = r.dicts()
    if not r.frames_ok or r.row_count != len(r.rows):
        self.v("frames", li, si, f"{what}: end row_count={r.row_count} but {len(r.rows)} rows")
    got = Counter()
    for row in rows:
        k = row.get("k")
        if k is None:
            k = self.k_of_eid.get(row.get("event_id"))
        got[k] += 1
    live = getattr(self, "last_sel", {}).get(meta.get("fkey"))
    self.stats["reads:show"] += 1
    if live is None:
        return
    live = set(live)
    for k, n in got.items():
        if n > 1:
            self.v("show-duplicate", li, si, f"{what}: k={k} returned {n} times", k=k)
        if k not in live:
            self.v("show-extra", li, si, f"{what}: returns k={k} which the live query does not return in the same state", k=k)
    for k in live:
        if k not in got:
            self.v("show-missing", li, si, f"{what}: live query returns k={k}, SHOW does not", k=k)
    if meta.get("again"):
        prev = getattr(self, "last_show", {}).get(meta["name"])
        if prev is not None and prev != got:
            self.v("show-unstable", li, si, f"{what}: repeated SHOW without new data returned {sorted(got.elements(), key=str)} after {sorted(prev.elements(), key=str)}")
    self.last_show = getattr(self, "last_show", {})
    self.last_show[meta["name"]] = got


Walker.on_remember = on_remember
Walker.on_show = on_show


# ====================================================================== C15 oracle

def on_seq(self, li, si, st, meta, issue, r):
    what = st.get("text")
    rows = self._rows(li, si, r, what)
    if rows is None:
        return
    a_t, b_t, rel = meta["a"], meta["b"], meta["rel"]
    if any(e.state == "may" for e in self.model.events):
        return
    conds = meta.get("conds") or []

    def ok_side(ev):
        return all(ev.stored.get(f) == v for t, f, v in conds if t == ev.type)
    A = [e for e in self.model.live(a_t) if ok_side(e)]
    B = [e for e in self.model.live(b_t) if ok_side(e)]
    want = Q.match_sequences(A, B, meta["link"], rel)
    # Events that carry no value of the link field: the property speaks of pairs that "carry the same value of k" and
    # does not say whether two events without a value are linked. The engine puts them into one group; both readings
    # are accepted - such pairs are neither required nor forbidden (their time relation and WHERE are still checked),
    # and they may or may not use up LIMIT.
    link = meta["link"]
    A0 = [e for e in A if e.stored.get(link) is None]
    B0 = [e for e in B if e.stored.get(link) is None]
    want_null = set()
    for a in A0:
        if any((rel == "FOLLOWED BY" and b.ts >= a.ts) or (rel == "PRECEDED BY" and b.ts < a.ts) for b in B0):
            want_null.add(a.k)
    if len(rows) % 2 != 0:
        self.v("seq-shape", li, si, f"{what}: {len(rows)} rows do not form pairs")
        return
    got_a = []
    for i in range(0, len(rows), 2):
        pair = rows[i:i + 2]
        ea = [x for x in pair if x.get("event_type") == a_t]
        eb = [x for x in pair if x.get("event_type") == b_t]
        if len(ea) != 1 or len(eb) != 1:
            self.v("seq-shape", li, si, f"{what}: rows {i},{i+1} are not one {a_t} and one {b_t} event: {pair}")
            continue
        ma, mb = self.model.bykey.get(ea[0].get("k")), self.model.bykey.get(eb[0].get("k"))
        if ma is None or mb is None or ma.state != "must" or mb.state != "must":
            self.v("seq-extra", li, si, f"{what}: pair refers to an event that was never applied: {pair}")
            continue
        got_a.append(ma.k)
        problems = []
        if ma.stored.get(meta["link"]) != mb.stored.get(meta["link"]):
            problems.append(f"link values differ ({ma.stored.get(meta['link'])!r} vs {mb.stored.get(meta['link'])!r})")
        if rel == "FOLLOWED BY" and not (mb.ts >= ma.ts):
            problems.append(f"b at {mb.ts} is earlier than a at {ma.ts}")
        if rel == "PRECEDED BY" and not (mb.ts < ma.ts):
            problems.append(f"b at {mb.ts} is not strictly earlier than a at {ma.ts}")
        if not ok_side(ma) or not ok_side(mb):
            problems.append("a side does not satisfy its WHERE condition")
        if problems:
            self.v("seq-bad-pair", li, si, f"{what}: pair (k={ma.k}, k={mb.k}): " + "; ".join(problems))
    lim = meta.get("limit")
    got_keyed = [k for k in got_a if k not in want_null]
    if lim is not None:
        lo, hi = min(lim, len(want)), min(lim, len(want) + len(want_null))
        if not (lo <= len(got_a) <= hi) or len(got_keyed) > len(want):
            self.v("seq-limit", li, si, f"{what}: {len(got_a)} sequences, expected min({lim}, {len(want)})" +
                   (f" (up to {hi} if events without a link value are linked to each other)" if want_null else ""))
    else:
        for k in sorted(want - set(got_keyed)):
            self.v("seq-missing", li, si, f"{what}: a-event k={k} has a qualifying partner but is not matched")
        for k in sorted(set(got_keyed) - want):
            self.v("seq-extra", li, si, f"{what}: a-event k={k} is matched although no qualifying partner exists")
        self._cur_atoms = []
        _invariance(self, li, si, what, sorted(set(got_keyed)), "matched a-events")
    self.stats["reads:seq"] += 1


Walker.on_seq = on_seq


def on_define_fail(self, li, si, st, meta, issue, r):
    if r is None:
        return
    if r.ok():
        self.v("define-error-changed-schema", li, si, f"{st.get('text')}: DEFINE of an existing type succeeded")
    self.stats["cmd:define_rejected"] += 1


Walker.on_define_fail = on_define_fail
