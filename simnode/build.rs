fn main() {
    // getrandom 0.3 (ahash's seed source) looks `getrandom` up with dlsym(RTLD_DEFAULT): export the
    // executable's definition so that it, too, gets the simulator's deterministic entropy.
    println!("cargo:rustc-link-arg=-Wl,--export-dynamic-symbol=getrandom");
    println!("cargo:rustc-link-arg=-Wl,--export-dynamic-symbol=clock_gettime");
}
