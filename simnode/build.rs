fn main() {
    // getrandom 0.3 (ahash's seed source) and std's statx wrapper look their libc function up with
    // dlsym(RTLD_DEFAULT): export the executable's definitions so that they, too, go through the seams.
    for sym in ["getrandom", "clock_gettime", "statx"] {
        println!("cargo:rustc-link-arg=-Wl,--export-dynamic-symbol={}", sym);
    }
}
