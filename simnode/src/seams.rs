//! libc-boundary seams: wall clock, OS entropy, and every mutating filesystem call.
//!
//! The symbols defined here with `#[unsafe(no_mangle)]` take precedence over glibc's
//! for every reference from the statically linked Rust code (std, tokio, snel_db,
//! chrono, ...). The real operation is performed with a raw `syscall(2)`.
//!
//! Every mutating call on a path below the run's data root is an *I/O event*:
//! numbered, logged, and subject to the fault plan (crash before/after, errno,
//! short write).

use std::ffi::CStr;
use std::os::raw::{c_char, c_int, c_long, c_uint, c_void};
use std::sync::Mutex;
use std::sync::atomic::{AtomicBool, AtomicI32, AtomicI64, AtomicU64, Ordering};

// ------------------------------------------------------------------ state

pub static WALL_NS: AtomicI64 = AtomicI64::new(1_700_000_000_000_000_000);
pub static CLOCK_READS: AtomicU64 = AtomicU64::new(0);
pub static LOG_FD: AtomicI32 = AtomicI32::new(-1);
pub static ARMED: AtomicBool = AtomicBool::new(false);
pub static IO_COUNT: AtomicU64 = AtomicU64::new(0);
pub static CRASH_BEFORE_IO: AtomicU64 = AtomicU64::new(0); // 0 = none
pub static CRASH_AFTER_IO: AtomicU64 = AtomicU64::new(0);
pub static LOG_READS: AtomicBool = AtomicBool::new(false);
pub static CAPTURE_DATA: AtomicBool = AtomicBool::new(true);
pub static LOG_TID: AtomicBool = AtomicBool::new(false);
static TIDS: Mutex<Vec<i64>> = Mutex::new(Vec::new());

#[derive(Clone, Debug)]
pub struct IoFault {
    pub id: String,
    pub op: String,        // op kind, or "*"
    pub path: String,      // glob with '*' (matches any run of chars), on the root-relative path
    pub nth: u64,          // 1-based occurrence among matching events; 0 = every occurrence
    pub errno: c_int,      // errno to return (0 = none)
    pub short: i64,        // for write: perform only this many bytes (>=0), -1 = not a short write
    pub then_crash: bool,  // _exit right after performing the (short) op
    pub until_gate: Option<String>, // the rule is inactive once this gate has been reached (confines a fault to a phase)
    pub seen: u64,
}

/// Gates reached so far in this lifetime (reported by the controller); only consulted by `until_gate`.
pub static GATES_SEEN: Mutex<Vec<String>> = Mutex::new(Vec::new());

pub fn note_gate(name: &str) {
    let mut g = GATES_SEEN.lock().unwrap();
    if !g.iter().any(|x| x == name) {
        g.push(name.to_string());
    }
}

/// Read-only opens are not numbered events, but a rule with op "open_ro" can make the n-th matching one fail
/// (an unreadable input file). Runs without such a rule are not affected in any way.
fn ro_fault(seam: &mut Seam, rel: &str) -> Option<(String, c_int)> {
    for f in seam.faults.iter_mut() {
        if f.op == "open_ro" && f.errno != 0 && glob_match(&f.path, rel) {
            if let Some(g) = &f.until_gate {
                if GATES_SEEN.lock().unwrap().iter().any(|x| x == g) {
                    continue;
                }
            }
            f.seen += 1;
            if f.nth == 0 || f.seen == f.nth {
                return Some((f.id.clone(), f.errno));
            }
        }
    }
    None
}

pub struct Seam {
    pub root: String, // absolute data root, no trailing slash
    pub fds: Vec<Option<String>>, // fd -> absolute path (only tracked paths)
    pub faults: Vec<IoFault>,
}

pub static SEAM: Mutex<Option<Seam>> = Mutex::new(None);

pub fn init(root: &str, faults: Vec<IoFault>) {
    let mut g = SEAM.lock().unwrap();
    *g = Some(Seam { root: root.trim_end_matches('/').to_string(), fds: vec![None; 4096], faults });
}

// ------------------------------------------------------------------ raw helpers

/// Raw x86_64 syscall (no libc involved: this binary also defines the libc symbol `syscall`).
#[inline(always)]
pub unsafe fn raw6(n: c_long, a1: usize, a2: usize, a3: usize, a4: usize, a5: usize, a6: usize) -> isize {
    let ret: isize;
    unsafe {
        core::arch::asm!(
            "syscall",
            inlateout("rax") n as isize => ret,
            in("rdi") a1, in("rsi") a2, in("rdx") a3, in("r10") a4, in("r8") a5, in("r9") a6,
            lateout("rcx") _, lateout("r11") _,
            options(nostack)
        );
    }
    ret
}

/// libc-style result: -1 and errno on failure.
#[inline]
pub unsafe fn sc(n: c_long, a: usize, b: usize, c: usize, d: usize, e: usize) -> isize {
    let r = unsafe { raw6(n, a, b, c, d, e, 0) };
    if r < 0 && r >= -4095 {
        set_errno((-r) as c_int);
        return -1;
    }
    r
}

pub fn gettid() -> i64 {
    unsafe { raw6(libc::SYS_gettid, 0, 0, 0, 0, 0, 0) as i64 }
}

/// The libc `syscall(2)` wrapper. Crates that fetch entropy with `syscall(SYS_getrandom, ..)`
/// (getrandom 0.2, hence rand::thread_rng) end up here; everything else is forwarded unchanged.
#[unsafe(no_mangle)]
pub unsafe extern "C" fn syscall(num: c_long, a1: usize, a2: usize, a3: usize, a4: usize, a5: usize, a6: usize) -> c_long {
    if num == libc::SYS_getrandom {
        return unsafe { getrandom(a1 as *mut c_void, a2, a3 as c_uint) } as c_long;
    }
    if num == libc::SYS_futex {
        let me = gettid();
        let op = (a2 as c_int) & 0x7f & !(libc::FUTEX_PRIVATE_FLAG);
        let is_wait = op == libc::FUTEX_WAIT || op == libc::FUTEX_WAIT_BITSET;
        if me == BLOCKING_TID.load(Ordering::Relaxed) && is_wait {
            BLOCKING_WAIT_ADDR.store(a1 as u64, Ordering::SeqCst);
            BLOCKING_IDLE.store(true, Ordering::SeqCst);
            let r = unsafe { raw6(num, a1, a2, a3, a4, a5, a6) };
            BLOCKING_IDLE.store(false, Ordering::SeqCst);
            BLOCKING_WAIT_ADDR.store(0, Ordering::SeqCst);
            if r < 0 && r >= -4095 {
                set_errno((-r) as c_int);
                return -1;
            }
            return r as c_long;
        }
        if me == RT_TID.load(Ordering::Relaxed) && (op == libc::FUTEX_WAKE || op == libc::FUTEX_WAKE_BITSET)
            && a1 as u64 == BLOCKING_WAIT_ADDR.load(Ordering::SeqCst) && a1 != 0
        {
            // the runtime thread wakes the futex the blocking thread is parked on: a job is being handed over.
            // The thread counts as busy from this instant, although the kernel may not have scheduled it yet;
            // it clears the flag itself when it parks again.
            BLOCKING_IDLE.store(false, Ordering::SeqCst);
        }
    }
    if num == libc::SYS_statx {
        return unsafe { do_statx(a1 as c_int, a2 as *const c_char, a3 as c_int, a4 as c_uint, a5 as *mut libc::statx) } as c_long;
    }
    let r = unsafe { raw6(num, a1, a2, a3, a4, a5, a6) };
    if r < 0 && r >= -4095 {
        set_errno((-r) as c_int);
        return -1;
    }
    r as c_long
}

pub fn raw_write_all(fd: c_int, mut buf: &[u8]) {
    while !buf.is_empty() {
        let r = unsafe { sc(libc::SYS_write, fd as usize, buf.as_ptr() as usize, buf.len(), 0, 0) };
        if r <= 0 {
            break;
        }
        buf = &buf[r as usize..];
    }
}

pub fn log_line(s: &str) {
    let fd = LOG_FD.load(Ordering::Relaxed);
    if fd < 0 {
        return;
    }
    let mut v = Vec::with_capacity(s.len() + 1);
    v.extend_from_slice(s.as_bytes());
    v.push(b'\n');
    raw_write_all(fd, &v);
}

/// Simulated file timestamps survive the process (they are filesystem metadata): persisted next to the plan.
static ROOT: std::sync::OnceLock<String> = std::sync::OnceLock::new();

fn mtimes_path() -> Option<String> {
    ROOT.get().map(|r| format!("{}/_sim/mtimes.json\0", r))
}

pub fn save_mtimes() {
    let Some(path) = mtimes_path() else { return };
    let Ok(m) = MTIMES.try_lock() else { return };
    let body = serde_json::to_string(&*m).unwrap_or_default();
    unsafe {
        let fd = raw6(libc::SYS_openat, libc::AT_FDCWD as usize, path.as_ptr() as usize,
                      (libc::O_CREAT | libc::O_WRONLY | libc::O_TRUNC) as usize, 0o644, 0, 0) as c_int;
        if fd >= 0 {
            raw_write_all(fd, body.as_bytes());
            raw6(libc::SYS_close, fd as usize, 0, 0, 0, 0, 0);
        }
    }
}

pub fn load_mtimes(root: &str) {
    let _ = ROOT.set(root.trim_end_matches('/').to_string());
    if let Ok(body) = std::fs::read_to_string(format!("{}/_sim/mtimes.json", root)) {
        if let Ok(m) = serde_json::from_str::<std::collections::BTreeMap<String, i64>>(&body) {
            *MTIMES.lock().unwrap() = m;
        }
    }
}

pub fn die(code: c_int) -> ! {
    save_mtimes();
    unsafe { raw6(libc::SYS_exit_group, code as usize, 0, 0, 0, 0, 0) };
    loop {}
}

fn set_errno(e: c_int) {
    unsafe { *libc::__errno_location() = e };
}

fn jstr(s: &str) -> String {
    serde_json::Value::String(s.to_string()).to_string()
}

fn glob_match(pat: &str, s: &str) -> bool {
    // '*' matches any (possibly empty) run of characters
    let parts: Vec<&str> = pat.split('*').collect();
    if parts.len() == 1 {
        return pat == s;
    }
    let mut pos = 0usize;
    for (i, part) in parts.iter().enumerate() {
        if i == 0 {
            if !s.starts_with(part) {
                return false;
            }
            pos = part.len();
        } else if i == parts.len() - 1 {
            return s.len() >= pos + part.len() && s[pos..].ends_with(part);
        } else {
            match s[pos..].find(part) {
                Some(ix) => pos = pos + ix + part.len(),
                None => return false,
            }
        }
    }
    true
}

// ------------------------------------------------------------------ the event core

pub enum Verdict {
    Pass,
    Errno(c_int),
    Short(usize, bool),
}

/// Number, log and judge one mutating operation. `rel` is root-relative.
fn io_event(seam: &mut Seam, op: &str, rel: &str, size: i64, data: Option<&[u8]>, extra: &str) -> (u64, Verdict) {
    let k = IO_COUNT.fetch_add(1, Ordering::SeqCst) + 1;
    if CRASH_BEFORE_IO.load(Ordering::Relaxed) == k {
        log_line(&format!(
            "{{\"t\":\"crash\",\"how\":\"before_io\",\"k\":{},\"op\":{},\"path\":{}}}",
            k, jstr(op), jstr(rel)
        ));
        die(137);
    }
    let mut verdict = Verdict::Pass;
    let mut fault_id: Option<String> = None;
    for f in seam.faults.iter_mut() {
        if (f.op == "*" || f.op == op) && glob_match(&f.path, rel) {
            f.seen += 1;
            if f.nth == 0 || f.seen == f.nth {
                fault_id = Some(f.id.clone());
                if f.short >= 0 && op == "write" {
                    verdict = Verdict::Short(f.short as usize, f.then_crash);
                } else if f.errno != 0 {
                    verdict = Verdict::Errno(f.errno);
                }
                break;
            }
        }
    }
    if matches!(op, "open" | "write" | "truncate" | "mkdir" | "rename" | "link") {
        // file timestamps follow the simulated wall clock (see statx below)
        MTIMES.lock().unwrap().insert(rel.to_string(), WALL_NS.load(Ordering::SeqCst));
    }
    let mut line = format!("{{\"t\":\"io\",\"k\":{},\"op\":{},\"path\":{}", k, jstr(op), jstr(rel));
    if LOG_TID.load(Ordering::Relaxed) {
        let tid = gettid();
        let mut tids = TIDS.lock().unwrap();
        let ix = match tids.iter().position(|t| *t == tid) {
            Some(i) => i,
            None => {
                tids.push(tid);
                tids.len() - 1
            }
        };
        drop(tids);
        use std::hash::BuildHasher;
        let hp = std::collections::hash_map::RandomState::new().hash_one(0u64);
        line.push_str(&format!(",\"tid\":{},\"gr\":{},\"hp\":{}", ix, GETRANDOM_CALLS.load(Ordering::Relaxed), hp % 100000));
    }
    if size >= 0 {
        line.push_str(&format!(",\"n\":{}", size));
    }
    if let Some(d) = data {
        if CAPTURE_DATA.load(Ordering::Relaxed) && d.len() <= 16384 && wants_data(rel) {
            match std::str::from_utf8(d) {
                Ok(s) => line.push_str(&format!(",\"data\":{}", jstr(s))),
                Err(_) => {
                    let mut h = String::with_capacity(d.len() * 2);
                    for b in d {
                        h.push_str(&format!("{:02x}", b));
                    }
                    line.push_str(&format!(",\"hex\":{}", jstr(&h)));
                }
            }
        }
    }
    if !extra.is_empty() {
        line.push(',');
        line.push_str(extra);
    }
    if let Some(id) = &fault_id {
        line.push_str(&format!(",\"fault\":{}", jstr(id)));
        match &verdict {
            Verdict::Errno(e) => line.push_str(&format!(",\"errno\":{}", e)),
            Verdict::Short(n, c) => line.push_str(&format!(",\"short\":{},\"then_crash\":{}", n, c)),
            Verdict::Pass => {}
        }
    }
    line.push('}');
    log_line(&line);
    (k, verdict)
}

fn wants_data(rel: &str) -> bool {
    rel.contains("wal") || rel.ends_with("segments.idx") || rel.ends_with("segments.idx.tmp") || rel.contains("schema") || rel.contains("auth")
}

fn after_event(k: u64) {
    if CRASH_AFTER_IO.load(Ordering::Relaxed) == k {
        log_line(&format!("{{\"t\":\"crash\",\"how\":\"after_io\",\"k\":{}}}", k));
        die(137);
    }
}

fn cpath(p: *const c_char) -> Option<String> {
    if p.is_null() {
        return None;
    }
    unsafe { CStr::from_ptr(p) }.to_str().ok().map(|s| s.to_string())
}

fn normalize(p: &str) -> String {
    // lexical normalisation of an absolute path (removes "." and ".." and "//")
    let mut out: Vec<&str> = Vec::new();
    for comp in p.split('/') {
        match comp {
            "" | "." => {}
            ".." => {
                out.pop();
            }
            c => out.push(c),
        }
    }
    let mut s = String::from("/");
    s.push_str(&out.join("/"));
    s
}

fn absolutize(p: &str) -> String {
    if p.starts_with('/') {
        normalize(p)
    } else {
        let cwd = std::env::current_dir().map(|d| d.to_string_lossy().to_string()).unwrap_or_default();
        normalize(&format!("{}/{}", cwd, p))
    }
}

/// Returns (absolute path, root-relative path) when `p` lies under the data root.
fn tracked(seam: &Seam, p: &str) -> Option<(String, String)> {
    let abs = absolutize(p);
    if abs.len() > seam.root.len() && abs.starts_with(&seam.root) && abs.as_bytes()[seam.root.len()] == b'/' {
        let rel = abs[seam.root.len() + 1..].to_string();
        if rel == "config.toml" || rel.starts_with("_sim/") {
            return None;
        }
        Some((abs, rel))
    } else {
        None
    }
}

fn resolve_at(seam: &Seam, dirfd: c_int, p: &str) -> Option<String> {
    if p.starts_with('/') || dirfd == libc::AT_FDCWD {
        Some(p.to_string())
    } else if dirfd >= 0 && (dirfd as usize) < seam.fds.len() {
        seam.fds[dirfd as usize].as_ref().map(|d| format!("{}/{}", d, p))
    } else {
        None
    }
}

fn armed() -> bool {
    ARMED.load(Ordering::Relaxed)
}

pub static RT_TID: AtomicI64 = AtomicI64::new(0);
pub static RT_PARKED: AtomicBool = AtomicBool::new(false);
pub static PARK_WAITS: AtomicU64 = AtomicU64::new(0);
pub static PARK_TIMEOUTS: AtomicU64 = AtomicU64::new(0);

/// Serialise the blocking-pool thread against the runtime thread: a mutating I/O event issued by any
/// thread other than the runtime thread proceeds only while the runtime thread is parked (it has run
/// every ready task to exhaustion). This removes the only real concurrency left in the node, so the
/// order of I/O events, gate arrivals and log lines is a pure function of the plan.
pub static CONFIRMED: AtomicBool = AtomicBool::new(false);
pub static BLOCKING_TID: AtomicI64 = AtomicI64::new(0);
pub static BLOCKING_IDLE: AtomicBool = AtomicBool::new(true);
pub static BLOCKING_WAIT_ADDR: AtomicU64 = AtomicU64::new(0);
pub static RT_WAITING: AtomicBool = AtomicBool::new(false);
pub static WAKE_PENDING: AtomicBool = AtomicBool::new(false);
pub static BOUNDARY_WAITS: AtomicU64 = AtomicU64::new(0);

fn thread_in_futex_wait(tid: i64) -> bool {
    let path = format!("/proc/self/task/{}/syscall\0", tid);
    let fd = unsafe { sc(libc::SYS_openat, libc::AT_FDCWD as usize, path.as_ptr() as usize, libc::O_RDONLY as usize, 0, 0) as c_int };
    if fd < 0 {
        return true;
    }
    let mut buf = [0u8; 64];
    let n = unsafe { sc(libc::SYS_read, fd as usize, buf.as_mut_ptr() as usize, buf.len(), 0, 0) };
    unsafe { sc(libc::SYS_close, fd as usize, 0, 0, 0, 0) };
    n > 0 && is_futex_wait_line(&buf[..n as usize])
}

/// `/proc/<tid>/syscall` line of a thread blocked in futex WAIT (not WAKE): "202 <addr> <op> ...".
fn is_futex_wait_line(line: &[u8]) -> bool {
    if !line.starts_with(b"202 ") {
        return false;
    }
    let text = std::str::from_utf8(line).unwrap_or("");
    let mut it = text.split_whitespace();
    let _nr = it.next();
    let _addr = it.next();
    let op = it.next().and_then(|s| u64::from_str_radix(s.trim_start_matches("0x"), 16).ok()).unwrap_or(u64::MAX);
    let op = (op & 0x7f) as i32;
    op == libc::FUTEX_WAIT || op == libc::FUTEX_WAIT_BITSET
}

/// Called by the runtime thread before it polls a task: while a blocking-pool job is running the runtime thread
/// stands still (and lets the job's I/O through), so the two threads never make progress at the same time and a
/// blocking job always completes between two task polls.
pub fn runtime_poll_boundary() {
    let bt = BLOCKING_TID.load(Ordering::Relaxed);
    if bt == 0 || BLOCKING_IDLE.load(Ordering::SeqCst) {
        return;
    }
    BOUNDARY_WAITS.fetch_add(1, Ordering::Relaxed);
    RT_WAITING.store(true, Ordering::SeqCst);
    let mut spins: u64 = 0;
    while !BLOCKING_IDLE.load(Ordering::SeqCst) {
        spins += 1;
        // /proc is only a fallback against a mis-attributed wake-up: right after a hand-over the thread is still
        // inside its futex wait although it is about to run
        // safety net only (a wait that was not observed by the futex seam): after ~100 ms
        if spins > 5_000 && spins % 512 == 0 && thread_in_futex_wait(bt) {
            BLOCKING_IDLE.store(true, Ordering::SeqCst);
            break;
        }
        if spins < 200 {
            unsafe { raw6(libc::SYS_sched_yield, 0, 0, 0, 0, 0, 0) };
        } else {
            let ts = libc::timespec { tv_sec: 0, tv_nsec: 20_000 };
            unsafe { raw6(libc::SYS_nanosleep, &ts as *const libc::timespec as usize, 0, 0, 0, 0, 0) };
        }
        if spins > 400_000 {
            log_line("{\"t\":\"harness-error\",\"msg\":\"poll boundary wait timeout\"}");
            break;
        }
    }
    RT_WAITING.store(false, Ordering::SeqCst);
}
static PROC_FD: AtomicI32 = AtomicI32::new(-1);

/// True when the kernel reports the runtime thread blocked inside epoll_wait/epoll_pwait.
fn runtime_in_epoll() -> bool {
    let mut fd = PROC_FD.load(Ordering::Relaxed);
    if fd < 0 {
        let path = format!("/proc/self/task/{}/syscall\0", RT_TID.load(Ordering::Relaxed));
        fd = unsafe { sc(libc::SYS_openat, libc::AT_FDCWD as usize, path.as_ptr() as usize, libc::O_RDONLY as usize, 0, 0) as c_int };
        if fd < 0 {
            return true; // cannot tell: fall back to the flag alone
        }
        PROC_FD.store(fd, Ordering::Relaxed);
    }
    let mut buf = [0u8; 64];
    let n = unsafe { sc(libc::SYS_pread64, fd as usize, buf.as_mut_ptr() as usize, buf.len(), 0, 0) };
    if n <= 0 {
        return true;
    }
    let s = &buf[..n as usize];
    // syscall numbers on x86_64: 232 epoll_wait, 281 epoll_pwait, 441 epoll_pwait2
    s.starts_with(b"232 ") || s.starts_with(b"281 ") || s.starts_with(b"441 ")
}

/// True when the runtime thread is blocked in a futex wait (pthread_join of a helper thread it spawned, or a
/// lock the other thread holds): it makes no progress, so the other thread's I/O may proceed.
fn runtime_in_futex() -> bool {
    let fd = PROC_FD.load(Ordering::Relaxed);
    if fd < 0 {
        return false;
    }
    let mut buf = [0u8; 64];
    let n = unsafe { sc(libc::SYS_pread64, fd as usize, buf.as_mut_ptr() as usize, buf.len(), 0, 0) };
    n > 0 && is_futex_wait_line(&buf[..n as usize])
}

fn wait_turn() {
    let me = gettid();
    if me == RT_TID.load(Ordering::Relaxed) || RT_TID.load(Ordering::Relaxed) == 0 {
        return;
    }
    if RT_WAITING.load(Ordering::SeqCst) || (RT_PARKED.load(Ordering::SeqCst) && CONFIRMED.load(Ordering::SeqCst)) {
        return;
    }
    PARK_WAITS.fetch_add(1, Ordering::Relaxed);
    let mut spins: u64 = 0;
    loop {
        if RT_WAITING.load(Ordering::SeqCst) {
            return;
        }
        if RT_PARKED.load(Ordering::SeqCst) && runtime_in_epoll() && RT_PARKED.load(Ordering::SeqCst) {
            CONFIRMED.store(true, Ordering::SeqCst);
            return;
        }
        if spins % 8 == 1 && !RT_PARKED.load(Ordering::SeqCst) && { runtime_in_epoll(); runtime_in_futex() } {
            return;
        }
        spins += 1;
        if spins < 100 {
            unsafe { raw6(libc::SYS_sched_yield, 0, 0, 0, 0, 0, 0) };
        } else {
            let ts = libc::timespec { tv_sec: 0, tv_nsec: 20_000 };
            unsafe { raw6(libc::SYS_nanosleep, &ts as *const libc::timespec as usize, 0, 0, 0, 0, 0) };
        }
        if spins > 100 + 100_000 {
            PARK_TIMEOUTS.fetch_add(1, Ordering::Relaxed);
            log_line("{\"t\":\"harness-error\",\"msg\":\"park wait timeout\"}");
            return;
        }
    }
}

pub static MTIMES: Mutex<std::collections::BTreeMap<String, i64>> = Mutex::new(std::collections::BTreeMap::new());
pub static STATX_PATCHED: AtomicU64 = AtomicU64::new(0);

/// File timestamps come from the kernel's real clock; code that compares them with event times (taken from the
/// simulated wall clock) would see every file as years newer than every event. Report the simulated time of the
/// last mutation instead, for paths below the data root.
unsafe fn do_statx(dirfd: c_int, path: *const c_char, flags: c_int, mask: c_uint, buf: *mut libc::statx) -> c_int {
    if armed() && !path.is_null() && path_is_tracked(dirfd, path) {
        wait_turn();
    }
    let r = unsafe { sc(libc::SYS_statx, dirfd as usize, path as usize, flags as usize, mask as usize, buf as usize) as c_int };
    if r != 0 || !armed() || buf.is_null() {
        return r;
    }
    let rel = {
        let g = SEAM.lock().unwrap();
        let Some(seam) = g.as_ref() else { return r };
        let ps = cpath(path).unwrap_or_default();
        if ps.is_empty() {
            fd_rel(seam, dirfd)
        } else {
            resolve_at(seam, dirfd, &ps).and_then(|full| tracked(seam, &full).map(|x| x.1))
        }
    };
    if let Some(rel) = rel {
        if let Some(ns) = MTIMES.lock().unwrap().get(&rel).copied() {
            unsafe {
                (*buf).stx_mtime.tv_sec = ns.div_euclid(1_000_000_000);
                (*buf).stx_mtime.tv_nsec = ns.rem_euclid(1_000_000_000) as u32;
                (*buf).stx_ctime = (*buf).stx_mtime;
                (*buf).stx_atime = (*buf).stx_mtime;
            }
            STATX_PATCHED.fetch_add(1, Ordering::Relaxed);
        }
    }
    r
}

#[unsafe(no_mangle)]
pub unsafe extern "C" fn statx(dirfd: c_int, path: *const c_char, flags: c_int, mask: c_uint, buf: *mut libc::statx) -> c_int {
    unsafe { do_statx(dirfd, path, flags, mask, buf) }
}

static EVENTFDS: Mutex<Vec<c_int>> = Mutex::new(Vec::new());

/// tokio/mio wake the runtime thread through an eventfd. Record those descriptors so that a wake-up
/// sent by another thread can flip RT_PARKED at once (closing the window between the signal and the
/// runtime thread's own on_thread_unpark callback).
#[unsafe(no_mangle)]
pub unsafe extern "C" fn eventfd(initval: c_uint, flags: c_int) -> c_int {
    let fd = unsafe { sc(libc::SYS_eventfd2, initval as usize, flags as usize, 0, 0, 0) as c_int };
    if fd >= 0 {
        EVENTFDS.lock().unwrap().push(fd);
    }
    fd
}

fn note_wakeup(fd: c_int) {
    let me = gettid();
    if me != RT_TID.load(Ordering::Relaxed) && EVENTFDS.lock().unwrap().contains(&fd) {
        RT_PARKED.store(false, Ordering::SeqCst);
        CONFIRMED.store(false, Ordering::SeqCst);
    }
}

fn path_is_tracked(dirfd: c_int, path: *const c_char) -> bool {
    let Some(ps) = cpath(path) else { return false };
    let g = SEAM.lock().unwrap();
    let Some(seam) = g.as_ref() else { return false };
    let Some(full) = resolve_at(seam, dirfd, &ps) else { return false };
    tracked(seam, &full).is_some()
}

fn fd_is_tracked(fd: c_int) -> bool {
    let g = SEAM.lock().unwrap();
    let Some(seam) = g.as_ref() else { return false };
    fd_rel(seam, fd).is_some()
}

// ------------------------------------------------------------------ clock + entropy

#[unsafe(no_mangle)]
pub unsafe extern "C" fn clock_gettime(clk: libc::clockid_t, ts: *mut libc::timespec) -> c_int {
    if clk == libc::CLOCK_REALTIME || clk == libc::CLOCK_REALTIME_COARSE {
        let ns = WALL_NS.load(Ordering::SeqCst);
        CLOCK_READS.fetch_add(1, Ordering::Relaxed);
        if !ts.is_null() {
            unsafe {
                (*ts).tv_sec = ns.div_euclid(1_000_000_000);
                (*ts).tv_nsec = ns.rem_euclid(1_000_000_000);
            }
        }
        return 0;
    }
    unsafe { sc(libc::SYS_clock_gettime, clk as usize, ts as usize, 0, 0, 0) as c_int }
}

#[unsafe(no_mangle)]
pub unsafe extern "C" fn gettimeofday(tv: *mut libc::timeval, _tz: *mut c_void) -> c_int {
    let ns = WALL_NS.load(Ordering::SeqCst);
    if !tv.is_null() {
        unsafe {
            (*tv).tv_sec = ns.div_euclid(1_000_000_000);
            (*tv).tv_usec = ns.rem_euclid(1_000_000_000) / 1000;
        }
    }
    0
}

#[unsafe(no_mangle)]
pub unsafe extern "C" fn time(t: *mut libc::time_t) -> libc::time_t {
    let s = WALL_NS.load(Ordering::SeqCst).div_euclid(1_000_000_000);
    if !t.is_null() {
        unsafe { *t = s };
    }
    s
}

pub static GETRANDOM_CALLS: AtomicU64 = AtomicU64::new(0);
pub static ENTROPY_SALT: AtomicU64 = AtomicU64::new(0);

#[unsafe(no_mangle)]
pub unsafe extern "C" fn getrandom(buf: *mut c_void, len: usize, _flags: c_uint) -> isize {
    let call = GETRANDOM_CALLS.fetch_add(1, Ordering::Relaxed);
    let b = buf as *mut u8;
    // splitmix64 stream keyed by the call number: reproducible, but successive requests differ
    let mut x: u64 = 0x9E3779B97F4A7C15u64.wrapping_mul(call.wrapping_add(1)) ^ ENTROPY_SALT.load(Ordering::Relaxed);
    for i in 0..len {
        if i % 8 == 0 {
            x = x.wrapping_add(0x9E3779B97F4A7C15);
            let mut z = x;
            z = (z ^ (z >> 30)).wrapping_mul(0xBF58476D1CE4E5B9);
            z = (z ^ (z >> 27)).wrapping_mul(0x94D049BB133111EB);
            x = z ^ (z >> 31);
        }
        unsafe { *b.add(i) = (x >> ((i % 8) * 8)) as u8 };
    }
    len as isize
}

// ------------------------------------------------------------------ filesystem

const WRITE_FLAGS: c_int = libc::O_WRONLY | libc::O_RDWR | libc::O_CREAT | libc::O_TRUNC | libc::O_APPEND;

unsafe fn do_open(dirfd: c_int, path: *const c_char, flags: c_int, mode: libc::mode_t) -> c_int {
    let real = |p: *const c_char| unsafe {
        sc(libc::SYS_openat, dirfd as usize, p as usize, flags as usize, mode as usize, 0) as c_int
    };
    if !armed() {
        return real(path);
    }
    if path_is_tracked(dirfd, path) {
        // also for read-only opens: a blocking task that only reads (SHOW's frame decoder, segment discovery)
        // must not run concurrently with the runtime thread either
        wait_turn();
    }
    let Some(ps) = cpath(path) else { return real(path) };
    let mut g = SEAM.lock().unwrap();
    let Some(seam) = g.as_mut() else { return real(path) };
    let Some(full) = resolve_at(seam, dirfd, &ps) else { return real(path) };
    let Some((abs, rel)) = tracked(seam, &full) else { return real(path) };
    let mutating = flags & WRITE_FLAGS != 0;
    let mut k = 0;
    if mutating {
        let exists = unsafe {
            let mut st: libc::stat = std::mem::zeroed();
            sc(libc::SYS_newfstatat, dirfd as usize, path as usize, &mut st as *mut _ as usize, 0, 0) == 0
        };
        let extra = format!(
            "\"creat\":{},\"trunc\":{},\"append\":{},\"excl\":{},\"exists\":{}",
            flags & libc::O_CREAT != 0,
            flags & libc::O_TRUNC != 0,
            flags & libc::O_APPEND != 0,
            flags & libc::O_EXCL != 0,
            exists
        );
        let (kk, v) = io_event(seam, "open", &rel, -1, None, &extra);
        k = kk;
        if let Verdict::Errno(e) = v {
            set_errno(e);
            return -1;
        }
    } else {
        if let Some((id, e)) = ro_fault(seam, &rel) {
            log_line(&format!("{{\"t\":\"rofault\",\"path\":{},\"fault\":{},\"errno\":{}}}", jstr(&rel), jstr(&id), e));
            set_errno(e);
            return -1;
        }
        if LOG_READS.load(Ordering::Relaxed) {
            log_line(&format!("{{\"t\":\"ro\",\"path\":{}}}", jstr(&rel)));
        }
    }
    let fd = real(path);
    if fd >= 0 && (fd as usize) < seam.fds.len() {
        seam.fds[fd as usize] = Some(abs);
    }
    drop(g);
    if k != 0 {
        after_event(k);
    }
    fd
}

#[unsafe(no_mangle)]
pub unsafe extern "C" fn open(path: *const c_char, flags: c_int, mode: libc::mode_t) -> c_int {
    unsafe { do_open(libc::AT_FDCWD, path, flags, mode) }
}
#[unsafe(no_mangle)]
pub unsafe extern "C" fn open64(path: *const c_char, flags: c_int, mode: libc::mode_t) -> c_int {
    unsafe { do_open(libc::AT_FDCWD, path, flags, mode) }
}
#[unsafe(no_mangle)]
pub unsafe extern "C" fn openat(dirfd: c_int, path: *const c_char, flags: c_int, mode: libc::mode_t) -> c_int {
    unsafe { do_open(dirfd, path, flags, mode) }
}
#[unsafe(no_mangle)]
pub unsafe extern "C" fn openat64(dirfd: c_int, path: *const c_char, flags: c_int, mode: libc::mode_t) -> c_int {
    unsafe { do_open(dirfd, path, flags, mode) }
}
#[unsafe(no_mangle)]
pub unsafe extern "C" fn creat(path: *const c_char, mode: libc::mode_t) -> c_int {
    unsafe { do_open(libc::AT_FDCWD, path, libc::O_CREAT | libc::O_WRONLY | libc::O_TRUNC, mode) }
}

fn fd_rel(seam: &Seam, fd: c_int) -> Option<String> {
    if fd < 0 || fd as usize >= seam.fds.len() {
        return None;
    }
    seam.fds[fd as usize].as_ref().and_then(|abs| tracked(seam, abs).map(|x| x.1))
}

#[unsafe(no_mangle)]
pub unsafe extern "C" fn close(fd: c_int) -> c_int {
    if armed() {
        if let Ok(mut g) = SEAM.lock() {
            if let Some(seam) = g.as_mut() {
                if fd >= 0 && (fd as usize) < seam.fds.len() {
                    seam.fds[fd as usize] = None;
                }
            }
        }
    }
    unsafe { sc(libc::SYS_close, fd as usize, 0, 0, 0, 0) as c_int }
}

unsafe fn do_write(fd: c_int, buf: *const c_void, n: usize, off: Option<i64>) -> isize {
    let real = |len: usize| unsafe {
        match off {
            None => sc(libc::SYS_write, fd as usize, buf as usize, len, 0, 0),
            Some(o) => sc(libc::SYS_pwrite64, fd as usize, buf as usize, len, o as usize, 0),
        }
    };
    if !armed() || fd == LOG_FD.load(Ordering::Relaxed) {
        return real(n);
    }
    if fd_is_tracked(fd) {
        wait_turn();
    } else {
        note_wakeup(fd);
    }
    let mut g = SEAM.lock().unwrap();
    let Some(seam) = g.as_mut() else { return real(n) };
    let Some(rel) = fd_rel(seam, fd) else { return real(n) };
    let data = unsafe { std::slice::from_raw_parts(buf as *const u8, n) };
    let extra = match off {
        Some(o) => format!("\"off\":{}", o),
        None => String::new(),
    };
    let (k, v) = io_event(seam, "write", &rel, n as i64, Some(data), &extra);
    drop(g);
    let r = match v {
        Verdict::Errno(e) => {
            set_errno(e);
            return -1;
        }
        Verdict::Short(m, crash) => {
            let m = m.min(n);
            let r = if m > 0 { real(m) } else { 0 };
            if crash {
                log_line(&format!("{{\"t\":\"crash\",\"how\":\"torn_write\",\"k\":{},\"wrote\":{}}}", k, m));
                die(137);
            }
            if m == 0 {
                // a zero-length result for a non-empty write is reported as ENOSPC by callers; model as error
                set_errno(libc::ENOSPC);
                return -1;
            }
            r
        }
        Verdict::Pass => real(n),
    };
    after_event(k);
    r
}

#[unsafe(no_mangle)]
pub unsafe extern "C" fn write(fd: c_int, buf: *const c_void, n: usize) -> isize {
    unsafe { do_write(fd, buf, n, None) }
}
#[unsafe(no_mangle)]
pub unsafe extern "C" fn pwrite(fd: c_int, buf: *const c_void, n: usize, off: i64) -> isize {
    unsafe { do_write(fd, buf, n, Some(off)) }
}
#[unsafe(no_mangle)]
pub unsafe extern "C" fn pwrite64(fd: c_int, buf: *const c_void, n: usize, off: i64) -> isize {
    unsafe { do_write(fd, buf, n, Some(off)) }
}

#[unsafe(no_mangle)]
pub unsafe extern "C" fn writev(fd: c_int, iov: *const libc::iovec, cnt: c_int) -> isize {
    let is_tracked = armed()
        && fd != LOG_FD.load(Ordering::Relaxed)
        && SEAM.lock().ok().and_then(|g| g.as_ref().and_then(|s| fd_rel(s, fd))).is_some();
    if !is_tracked {
        return unsafe { sc(libc::SYS_writev, fd as usize, iov as usize, cnt as usize, 0, 0) };
    }
    // Gather into one buffer so that a vectored write is one event with one payload.
    let mut v: Vec<u8> = Vec::new();
    for i in 0..cnt as usize {
        let e = unsafe { &*iov.add(i) };
        v.extend_from_slice(unsafe { std::slice::from_raw_parts(e.iov_base as *const u8, e.iov_len) });
    }
    unsafe { do_write(fd, v.as_ptr() as *const c_void, v.len(), None) }
}

unsafe fn path_op(
    op: &str,
    dirfd: c_int,
    path: *const c_char,
    extra: &str,
    real: &dyn Fn() -> isize,
) -> isize {
    if !armed() {
        return real();
    }
    if path_is_tracked(dirfd, path) {
        wait_turn();
    }
    let Some(ps) = cpath(path) else { return real() };
    let mut g = SEAM.lock().unwrap();
    let Some(seam) = g.as_mut() else { return real() };
    let Some(full) = resolve_at(seam, dirfd, &ps) else { return real() };
    let Some((_abs, rel)) = tracked(seam, &full) else { return real() };
    let (k, v) = io_event(seam, op, &rel, -1, None, extra);
    drop(g);
    if let Verdict::Errno(e) = v {
        set_errno(e);
        return -1;
    }
    let r = real();
    after_event(k);
    r
}

#[unsafe(no_mangle)]
pub unsafe extern "C" fn unlink(path: *const c_char) -> c_int {
    unsafe {
        path_op("unlink", libc::AT_FDCWD, path, "", &|| sc(libc::SYS_unlinkat, libc::AT_FDCWD as usize, path as usize, 0, 0, 0)) as c_int
    }
}
#[unsafe(no_mangle)]
pub unsafe extern "C" fn rmdir(path: *const c_char) -> c_int {
    unsafe {
        path_op("rmdir", libc::AT_FDCWD, path, "", &|| {
            sc(libc::SYS_unlinkat, libc::AT_FDCWD as usize, path as usize, libc::AT_REMOVEDIR as usize, 0, 0)
        }) as c_int
    }
}
#[unsafe(no_mangle)]
pub unsafe extern "C" fn unlinkat(dirfd: c_int, path: *const c_char, flags: c_int) -> c_int {
    let op = if flags & libc::AT_REMOVEDIR != 0 { "rmdir" } else { "unlink" };
    unsafe {
        path_op(op, dirfd, path, "", &|| sc(libc::SYS_unlinkat, dirfd as usize, path as usize, flags as usize, 0, 0)) as c_int
    }
}
#[unsafe(no_mangle)]
pub unsafe extern "C" fn mkdir(path: *const c_char, mode: libc::mode_t) -> c_int {
    unsafe {
        path_op("mkdir", libc::AT_FDCWD, path, "", &|| {
            sc(libc::SYS_mkdirat, libc::AT_FDCWD as usize, path as usize, mode as usize, 0, 0)
        }) as c_int
    }
}
#[unsafe(no_mangle)]
pub unsafe extern "C" fn mkdirat(dirfd: c_int, path: *const c_char, mode: libc::mode_t) -> c_int {
    unsafe {
        path_op("mkdir", dirfd, path, "", &|| sc(libc::SYS_mkdirat, dirfd as usize, path as usize, mode as usize, 0, 0)) as c_int
    }
}

unsafe fn do_rename(odfd: c_int, old: *const c_char, ndfd: c_int, new: *const c_char, flags: c_uint) -> c_int {
    let real = || unsafe {
        sc(libc::SYS_renameat2, odfd as usize, old as usize, ndfd as usize, new as usize, flags as usize) as c_int
    };
    if !armed() {
        return real();
    }
    if path_is_tracked(odfd, old) || path_is_tracked(ndfd, new) {
        wait_turn();
    }
    let (Some(o), Some(n)) = (cpath(old), cpath(new)) else { return real() };
    let mut g = SEAM.lock().unwrap();
    let Some(seam) = g.as_mut() else { return real() };
    let of = resolve_at(seam, odfd, &o).and_then(|p| tracked(seam, &p));
    let nf = resolve_at(seam, ndfd, &n).and_then(|p| tracked(seam, &p));
    if of.is_none() && nf.is_none() {
        return real();
    }
    let orel = of.map(|x| x.1).unwrap_or_else(|| format!("<outside>{}", o));
    let nrel = nf.map(|x| x.1).unwrap_or_else(|| format!("<outside>{}", n));
    let extra = format!("\"to\":{}", jstr(&nrel));
    let (k, v) = io_event(seam, "rename", &orel, -1, None, &extra);
    drop(g);
    if let Verdict::Errno(e) = v {
        set_errno(e);
        return -1;
    }
    let r = real();
    if r == 0 {
        let mut m = MTIMES.lock().unwrap();
        let moved: Vec<(String, i64)> = m.range(orel.clone()..).take_while(|(p, _)| p.starts_with(&orel)).map(|(p, v)| (p.clone(), *v)).collect();
        for (p, v) in moved {
            m.remove(&p);
            m.insert(format!("{}{}", nrel, &p[orel.len()..]), v);
        }
    }
    after_event(k);
    r
}

#[unsafe(no_mangle)]
pub unsafe extern "C" fn rename(old: *const c_char, new: *const c_char) -> c_int {
    unsafe { do_rename(libc::AT_FDCWD, old, libc::AT_FDCWD, new, 0) }
}
#[unsafe(no_mangle)]
pub unsafe extern "C" fn renameat(odfd: c_int, old: *const c_char, ndfd: c_int, new: *const c_char) -> c_int {
    unsafe { do_rename(odfd, old, ndfd, new, 0) }
}
#[unsafe(no_mangle)]
pub unsafe extern "C" fn renameat2(odfd: c_int, old: *const c_char, ndfd: c_int, new: *const c_char, flags: c_uint) -> c_int {
    unsafe { do_rename(odfd, old, ndfd, new, flags) }
}

unsafe fn fd_op(op: &str, fd: c_int, size: i64, real: &dyn Fn() -> isize) -> isize {
    if !armed() {
        return real();
    }
    if fd_is_tracked(fd) {
        wait_turn();
    }
    let mut g = SEAM.lock().unwrap();
    let Some(seam) = g.as_mut() else { return real() };
    let Some(rel) = fd_rel(seam, fd) else { return real() };
    let (k, v) = io_event(seam, op, &rel, size, None, "");
    drop(g);
    if let Verdict::Errno(e) = v {
        set_errno(e);
        return -1;
    }
    let r = real();
    after_event(k);
    r
}

#[unsafe(no_mangle)]
pub unsafe extern "C" fn fsync(fd: c_int) -> c_int {
    unsafe { fd_op("fsync", fd, -1, &|| sc(libc::SYS_fsync, fd as usize, 0, 0, 0, 0)) as c_int }
}
#[unsafe(no_mangle)]
pub unsafe extern "C" fn fdatasync(fd: c_int) -> c_int {
    unsafe { fd_op("fsync", fd, -1, &|| sc(libc::SYS_fdatasync, fd as usize, 0, 0, 0, 0)) as c_int }
}
#[unsafe(no_mangle)]
pub unsafe extern "C" fn ftruncate(fd: c_int, len: i64) -> c_int {
    unsafe { fd_op("truncate", fd, len, &|| sc(libc::SYS_ftruncate, fd as usize, len as usize, 0, 0, 0)) as c_int }
}
#[unsafe(no_mangle)]
pub unsafe extern "C" fn ftruncate64(fd: c_int, len: i64) -> c_int {
    unsafe { fd_op("truncate", fd, len, &|| sc(libc::SYS_ftruncate, fd as usize, len as usize, 0, 0, 0)) as c_int }
}

#[unsafe(no_mangle)]
pub unsafe extern "C" fn linkat(odfd: c_int, old: *const c_char, ndfd: c_int, new: *const c_char, flags: c_int) -> c_int {
    unsafe {
        path_op("link", ndfd, new, "", &|| {
            sc(libc::SYS_linkat, odfd as usize, old as usize, ndfd as usize, new as usize, flags as usize)
        }) as c_int
    }
}
#[unsafe(no_mangle)]
pub unsafe extern "C" fn link(old: *const c_char, new: *const c_char) -> c_int {
    unsafe { linkat(libc::AT_FDCWD, old, libc::AT_FDCWD, new, 0) }
}
