//! simnode — executes ONE process lifetime of a simulation plan against the real
//! snel_db code (linked from /repo's working tree, feature `sim-hooks`).
//!
//! usage: simnode <plan.json> <lifetime-index> <log.jsonl>
//!
//! Everything the run does is a pure function of the plan file: the tokio runtime is
//! single-threaded with a paused clock, the wall clock and OS entropy are interposed
//! (seams.rs), every filesystem mutation is a numbered I/O event, and background
//! tasks only park where the plan's hold rules say so.

mod seams;

use serde_json::{Value, json};
use snel_db::command::dispatcher::dispatch_command;
use snel_db::command::parser::parse_command;
use snel_db::frontend::context::FrontendContext;
use snel_db::frontend::tcp::listener::sim::{SimAuthState, check_auth};
use snel_db::shared::response::JsonRenderer;
use snel_db::sim_hooks::{self, Controller, GateFuture};
use std::collections::HashMap;
use std::sync::atomic::{AtomicU64, Ordering};
use std::sync::{Arc, Mutex};
use std::time::Duration;
use tokio::sync::oneshot;
use tokio::task::JoinHandle;

static SEQ: AtomicU64 = AtomicU64::new(0);

fn seq() -> u64 {
    SEQ.fetch_add(1, Ordering::SeqCst) + 1
}

fn log(v: Value) {
    seams::log_line(&v.to_string());
}

// ------------------------------------------------------------------ controller

#[derive(Clone, Debug)]
struct HoldRule {
    id: String,
    gate: String,
    key: String, // "" or "*" = any; otherwise exact or prefix ending in '*'
    nth: u64,    // 1-based among arrivals matching (gate,key); 0 = every arrival
    crash: bool,
    seen: u64,
    armed: bool, // rules with "armed": false in the plan only start matching after an "arm" step
}

struct CtlState {
    rules: Vec<HoldRule>,
    parked: Vec<(String, String, String, oneshot::Sender<()>)>, // (rule id, gate, key, sender)
    arrivals: HashMap<String, u64>,
    log_all_gates: bool,
    uid_salt: String,
    spin_ms: i64,
    serialize_flushes: bool,
    flush_token: Option<String>,                         // shard key prefix currently flushing
    flush_waiters: Vec<(String, oneshot::Sender<()>)>,   // FIFO of flush tasks waiting for the token
}

struct Ctl {
    st: Mutex<CtlState>,
}

fn key_matches(pat: &str, key: &str) -> bool {
    if pat.is_empty() || pat == "*" {
        return true;
    }
    if let Some(p) = pat.strip_suffix('*') {
        return key.starts_with(p);
    }
    pat == key
}

static CTL: std::sync::OnceLock<Arc<Ctl>> = std::sync::OnceLock::new();

struct CtlHandle(Arc<Ctl>);

impl Controller for CtlHandle {
    fn gate(&self, name: &'static str, key: &str) -> Option<GateFuture> {
        seams::note_gate(name);
        let mut st = self.0.st.lock().unwrap();
        *st.arrivals.entry(name.to_string()).or_insert(0) += 1;
        // Flushes of different shards share the blocking pool; their relative progress would depend on
        // real-time completion order. One flush at a time (arrival order) keeps every run a pure function
        // of the plan. Hold rules still apply to the flush that owns the token.
        if st.serialize_flushes && name == "flush.done" {
            st.flush_token = None;
            if !st.flush_waiters.is_empty() {
                let (k, tx) = st.flush_waiters.remove(0);
                st.flush_token = Some(k);
                let _ = tx.send(());
            }
        }
        let mut wait_token: Option<oneshot::Receiver<()>> = None;
        if st.serialize_flushes && name == "flush.start" {
            if st.flush_token.is_none() {
                st.flush_token = Some(key.to_string());
            } else {
                let (tx, rx) = oneshot::channel();
                st.flush_waiters.push((key.to_string(), tx));
                wait_token = Some(rx);
            }
        }
        let mut hit: Option<(String, bool)> = None;
        for r in st.rules.iter_mut() {
            if r.armed && r.gate == name && key_matches(&r.key, key) {
                r.seen += 1;
                if r.nth == 0 || r.seen == r.nth {
                    hit = Some((r.id.clone(), r.crash));
                    break;
                }
            }
        }
        if let Some(rx) = wait_token {
            // wait for the flush token first; a hold rule on flush.start of this flush then applies on wake-up
            let parked_rule = hit.clone();
            log(json!({"t":"gate","seq":seq(),"name":name,"key":key,"token_wait":true,"rule":parked_rule.as_ref().map(|h| h.0.clone())}));
            let hold_rx = match parked_rule {
                Some((id, false)) => {
                    let (tx, hrx) = oneshot::channel();
                    st.parked.push((id, name.to_string(), key.to_string(), tx));
                    Some(hrx)
                }
                _ => None,
            };
            return Some(Box::pin(async move {
                let _ = rx.await;
                if let Some(h) = hold_rx {
                    let _ = h.await;
                }
            }));
        }
        match hit {
            None => {
                if st.log_all_gates && name != "flow.send" {
                    log(json!({"t":"gate","seq":seq(),"name":name,"key":key}));
                }
                None
            }
            Some((id, true)) => {
                log(json!({"t":"gate","seq":seq(),"name":name,"key":key,"rule":id}));
                log(json!({"t":"crash","how":"at_gate","name":name,"key":key,"rule":id}));
                seams::die(137);
            }
            Some((id, false)) => {
                log(json!({"t":"gate","seq":seq(),"name":name,"key":key,"rule":id,"parked":true}));
                let (tx, rx) = oneshot::channel();
                st.parked.push((id, name.to_string(), key.to_string(), tx));
                Some(Box::pin(async move {
                    let _ = rx.await;
                }))
            }
        }
    }

    fn uid_override(&self, event_type: &str) -> Option<String> {
        let st = self.0.st.lock().unwrap();
        // 16 alphanumeric chars, deterministic in (event type, salt)
        let mut h: u64 = 0xcbf29ce484222325;
        for b in event_type.bytes().chain(st.uid_salt.bytes()) {
            h ^= b as u64;
            h = h.wrapping_mul(0x100000001b3);
        }
        const ALPHA: &[u8] = b"abcdefghijklmnopqrstuvwxyzABCDEFGHIJKLMNOPQRSTUVWXYZ0123456789";
        let mut out = String::new();
        let mut x = h;
        for _ in 0..16 {
            out.push(ALPHA[(x % 62) as usize] as char);
            x = x / 62 ^ x.rotate_left(17).wrapping_mul(0x9E3779B97F4A7C15);
        }
        Some(out)
    }

    fn spin(&self) {
        let ms = self.0.st.lock().unwrap().spin_ms;
        if ms > 0 {
            seams::WALL_NS.fetch_add(ms * 1_000_000, Ordering::SeqCst);
        }
    }
}

fn release(id: &str) -> usize {
    let ctl = CTL.get().unwrap();
    let mut st = ctl.st.lock().unwrap();
    let mut n = 0;
    let mut i = 0;
    while i < st.parked.len() {
        if id == "*" || st.parked[i].0 == id {
            let (rid, gate, key, tx) = st.parked.remove(i);
            log(json!({"t":"release","seq":seq(),"rule":rid,"name":gate,"key":key}));
            let _ = tx.send(());
            n += 1;
        } else {
            i += 1;
        }
    }
    n
}

fn parked_count() -> usize {
    CTL.get().unwrap().st.lock().unwrap().parked.len()
}

// ------------------------------------------------------------------ helpers

async fn barrier() {
    // Under the paused clock this returns only once no task is runnable and no
    // spawn_blocking job is outstanding.
    tokio::time::sleep(Duration::from_millis(1)).await;
}

fn errno_of(name: &str) -> i32 {
    match name {
        "EIO" => libc::EIO,
        "ENOSPC" => libc::ENOSPC,
        "EACCES" => libc::EACCES,
        "ENOENT" => libc::ENOENT,
        "ENOTDIR" => libc::ENOTDIR,
        "EEXIST" => libc::EEXIST,
        "EINTR" => libc::EINTR,
        "EMFILE" => libc::EMFILE,
        "EROFS" => libc::EROFS,
        "EDQUOT" => libc::EDQUOT,
        _ => libc::EIO,
    }
}

fn fnv(data: &[u8]) -> u64 {
    let mut h: u64 = 0xcbf29ce484222325;
    for b in data {
        h ^= *b as u64;
        h = h.wrapping_mul(0x100000001b3);
    }
    h
}

fn fs_snapshot(root: &str) -> Value {
    fn walk(dir: &std::path::Path, root: &std::path::Path, out: &mut Vec<(String, Value)>) {
        let Ok(rd) = std::fs::read_dir(dir) else { return };
        let mut entries: Vec<_> = rd.flatten().collect();
        entries.sort_by_key(|e| e.file_name());
        for e in entries {
            let p = e.path();
            let rel = p.strip_prefix(root).unwrap().to_string_lossy().to_string();
            if rel == "config.toml" || rel.starts_with("_sim") {
                continue;
            }
            let Ok(ft) = e.file_type() else { continue };
            if ft.is_dir() {
                out.push((rel.clone() + "/", json!("dir")));
                walk(&p, root, out);
            } else {
                match std::fs::read(&p) {
                    Ok(d) => out.push((rel, json!([d.len(), format!("{:016x}", fnv(&d))]))),
                    Err(_) => out.push((rel, json!("unreadable"))),
                }
            }
        }
    }
    let mut out = Vec::new();
    let rootp = std::path::PathBuf::from(root);
    walk(&rootp, &rootp, &mut out);
    let mut m = serde_json::Map::new();
    for (k, v) in out {
        m.insert(k, v);
    }
    Value::Object(m)
}

struct Conn {
    auth: SimAuthState,
}

static TOKENS: Mutex<Vec<(usize, String)>> = Mutex::new(Vec::new());

/// Replace {{TOKEN:<step>}} by the session token the AUTH command of that step returned.
fn substitute(text: &str) -> String {
    let mut out = text.to_string();
    let toks = TOKENS.lock().unwrap();
    for (step, tok) in toks.iter() {
        out = out.replace(&format!("{{{{TOKEN:{}}}}}", step), tok);
    }
    out
}

struct Pending {
    handle: JoinHandle<()>,
    done: Arc<Mutex<bool>>,
}

/// The body of the TCP listener's per-line loop: auth gate -> parse -> dispatch.
async fn run_line(
    ctx: Arc<FrontendContext>,
    conn: Arc<tokio::sync::Mutex<Conn>>,
    line: String,
    step: usize,
) {
    let mut out: Vec<u8> = Vec::new();
    let mut c = conn.lock().await;
    let mut user: Option<String> = None;
    let mut stage = "dispatch";
    match check_auth(line.trim(), &mut c.auth).await {
        Some(("OK", _, u, Some(token))) => {
            TOKENS.lock().unwrap().push((step, token.clone()));
            out.extend_from_slice(format!("OK TOKEN {}\n", token).as_bytes());
            user = u;
            stage = "auth-ok";
        }
        Some(("OK", _, u, None)) => {
            out.extend_from_slice(b"OK\n");
            user = u;
            stage = "auth-ok";
        }
        Some((command_to_parse, _, u, _)) => {
            user = u;
            match parse_command(command_to_parse) {
                Ok(cmd) => {
                    let r = dispatch_command(
                        &cmd,
                        &mut out,
                        &ctx.shard_manager,
                        &ctx.registry,
                        ctx.auth_manager.as_ref(),
                        user.as_deref(),
                        &JsonRenderer,
                    )
                    .await;
                    if let Err(e) = r {
                        out.extend_from_slice(format!("DISPATCH-ERROR: {e}\n").as_bytes());
                    }
                }
                Err(e) => {
                    stage = "parse-error";
                    out.extend_from_slice(format!("ERROR: {e}\n").as_bytes());
                }
            }
        }
        None => {
            stage = "auth-failed";
            out.extend_from_slice(b"ERROR: Authentication failed\n");
        }
    }
    drop(c);
    log(json!({"t":"resp","seq":seq(),"step":step,"stage":stage,"user":user,
               "verb":line.trim().split_whitespace().next().unwrap_or("").to_uppercase(),
               "body":String::from_utf8_lossy(&out)}));
}

// ------------------------------------------------------------------ main

fn main() {
    let args: Vec<String> = std::env::args().collect();
    if args.len() < 4 {
        eprintln!("usage: simnode <plan.json> <lifetime-index> <log.jsonl>");
        std::process::exit(2);
    }
    let plan: Value = serde_json::from_str(&std::fs::read_to_string(&args[1]).expect("read plan")).expect("plan json");
    let li: usize = args[2].parse().expect("lifetime index");
    let root = plan["root"].as_str().expect("plan.root").trim_end_matches('/').to_string();
    let life = plan["lifetimes"][li].clone();
    if life.is_null() {
        eprintln!("no such lifetime");
        std::process::exit(2);
    }

    // log file (opened before the seams are armed; written with raw syscalls)
    {
        use std::os::unix::io::IntoRawFd;
        let f = std::fs::OpenOptions::new().create(true).append(true).open(&args[3]).expect("open log");
        seams::LOG_FD.store(f.into_raw_fd(), Ordering::SeqCst);
    }

    unsafe { std::env::set_var("SNELDB_CONFIG", format!("{}/config.toml", root)) };

    // OS entropy: reproducible, but different in every process lifetime (as it is in reality - anything that
    // depends on per-process random keys, e.g. a randomly seeded hasher, must not leak into durable behaviour)
    {
        let mut h: u64 = 0xcbf29ce484222325;
        for b in plan["uid_salt"].as_str().unwrap_or("").bytes().chain(format!("#life{}", li).bytes()) {
            h ^= b as u64;
            h = h.wrapping_mul(0x100000001b3);
        }
        seams::ENTROPY_SALT.store(h, Ordering::SeqCst);
    }

    // wall clock
    if let Some(ms) = life["wall_clock_ms"].as_i64() {
        seams::WALL_NS.store(ms * 1_000_000, Ordering::SeqCst);
    }
    let tick_ms = life["tick_ms"].as_i64().unwrap_or(0);

    // fault plan
    let mut faults = Vec::new();
    if let Some(arr) = life["io_faults"].as_array() {
        for (i, f) in arr.iter().enumerate() {
            faults.push(seams::IoFault {
                id: f["id"].as_str().map(|s| s.to_string()).unwrap_or(format!("f{}", i)),
                op: f["op"].as_str().unwrap_or("*").to_string(),
                path: f["path"].as_str().unwrap_or("*").to_string(),
                nth: f["nth"].as_u64().unwrap_or(1),
                errno: f["errno"].as_str().map(errno_of).unwrap_or(0),
                short: f["short"].as_i64().unwrap_or(-1),
                then_crash: f["then_crash"].as_bool().unwrap_or(false),
                until_gate: f["until_gate"].as_str().map(|s| s.to_string()),
                seen: 0,
            });
        }
    }
    seams::init(&root, faults);
    seams::load_mtimes(&root);
    let end = life["end"].clone();
    if let Some(k) = end["crash_before_io"].as_u64() {
        seams::CRASH_BEFORE_IO.store(k, Ordering::SeqCst);
    }
    if let Some(k) = end["crash_after_io"].as_u64() {
        seams::CRASH_AFTER_IO.store(k, Ordering::SeqCst);
    }
    if life["log_reads"].as_bool().unwrap_or(false) {
        seams::LOG_READS.store(true, Ordering::SeqCst);
    }
    if plan["log_tid"].as_bool().unwrap_or(false) {
        seams::LOG_TID.store(true, Ordering::SeqCst);
    }
    if let Some(b) = life["capture_data"].as_bool() {
        seams::CAPTURE_DATA.store(b, Ordering::SeqCst);
    }

    // controller
    let mut rules = Vec::new();
    if let Some(arr) = life["holds"].as_array() {
        for (i, h) in arr.iter().enumerate() {
            rules.push(HoldRule {
                id: h["id"].as_str().map(|s| s.to_string()).unwrap_or(format!("h{}", i)),
                gate: h["gate"].as_str().unwrap_or("").to_string(),
                key: h["key"].as_str().unwrap_or("").to_string(),
                nth: h["nth"].as_u64().unwrap_or(1),
                crash: h["crash"].as_bool().unwrap_or(false),
                seen: 0,
                armed: h["armed"].as_bool().unwrap_or(true),
            });
        }
    }
    let ctl = Arc::new(Ctl {
        st: Mutex::new(CtlState {
            rules,
            parked: Vec::new(),
            arrivals: HashMap::new(),
            log_all_gates: life["log_gates"].as_bool().unwrap_or(true),
            uid_salt: plan["uid_salt"].as_str().unwrap_or("").to_string(),
            spin_ms: life["spin_ms"].as_i64().unwrap_or(1),
            serialize_flushes: life["serialize_flushes"].as_bool().unwrap_or(true),
            flush_token: None,
            flush_waiters: Vec::new(),
        }),
    });
    let _ = CTL.set(Arc::clone(&ctl));
    sim_hooks::install(Box::new(CtlHandle(ctl)));

    log(json!({"t":"start","lifetime":li,"root":root,"wall_ms":seams::WALL_NS.load(Ordering::SeqCst)/1_000_000}));

    let rt = tokio::runtime::Builder::new_current_thread()
        .enable_all()
        .start_paused(true)
        .max_blocking_threads(1)
        // tasks woken from the blocking thread land in the remote queue; by default it is only looked at every
        // N ticks, and the tick count depends on spurious (real-time) wake-ups of the parked runtime thread
        .global_queue_interval(1)
        .on_thread_start(|| {
            let me = seams::gettid();
            if me != seams::RT_TID.load(Ordering::Relaxed) {
                seams::BLOCKING_TID.store(me, Ordering::SeqCst);
                seams::BLOCKING_IDLE.store(false, Ordering::SeqCst);
            }
        })
        .on_before_task_poll(|_| seams::runtime_poll_boundary())
        .on_thread_park(|| {
            if seams::gettid() == seams::RT_TID.load(Ordering::Relaxed) {
                seams::RT_PARKED.store(true, Ordering::SeqCst);
            }
        })
        .on_thread_unpark(|| {
            if seams::gettid() == seams::RT_TID.load(Ordering::Relaxed) {
                seams::RT_PARKED.store(false, Ordering::SeqCst);
                seams::CONFIRMED.store(false, Ordering::SeqCst);
            }
        })
        .build()
        .expect("runtime");

    seams::RT_TID.store(seams::gettid(), Ordering::SeqCst);
    rt.block_on(async move {
        seams::ARMED.store(true, Ordering::SeqCst);
        let t0 = tokio::time::Instant::now();
        let ctx = FrontendContext::from_config().await;
        barrier().await;
        log(json!({"t":"ready","seq":seq(),"io":seams::IO_COUNT.load(Ordering::SeqCst),
                   "sim_ms":t0.elapsed().as_millis() as u64}));

        let mut conns: HashMap<u64, Arc<tokio::sync::Mutex<Conn>>> = HashMap::new();
        let mut pending: HashMap<usize, Pending> = HashMap::new();
        let steps = life["steps"].as_array().cloned().unwrap_or_default();

        for (i, st) in steps.iter().enumerate() {
            let op = st["op"].as_str().unwrap_or("cmd");
            if tick_ms != 0 {
                seams::WALL_NS.fetch_add(tick_ms * 1_000_000, Ordering::SeqCst);
            }
            if let Some(ms) = st["wall_advance_ms"].as_i64() {
                seams::WALL_NS.fetch_add(ms * 1_000_000, Ordering::SeqCst);
            }
            if let Some(ms) = st["wall_set_ms"].as_i64() {
                seams::WALL_NS.store(ms * 1_000_000, Ordering::SeqCst);
            }
            match op {
                "cmd" => {
                    let cid = st["conn"].as_u64().unwrap_or(0);
                    let conn = conns
                        .entry(cid)
                        .or_insert_with(|| {
                            Arc::new(tokio::sync::Mutex::new(Conn {
                                auth: SimAuthState::new(ctx.auth_manager.clone(), format!("10.0.0.{}", cid)),
                            }))
                        })
                        .clone();
                    let text = substitute(st["text"].as_str().unwrap_or(""));
                    log(json!({"t":"issue","seq":seq(),"step":i,"conn":cid,
                               "wall_ms":seams::WALL_NS.load(Ordering::SeqCst)/1_000_000,
                               "io":seams::IO_COUNT.load(Ordering::SeqCst)}));
                    let done = Arc::new(Mutex::new(false));
                    let done2 = Arc::clone(&done);
                    let ctx2 = Arc::clone(&ctx);
                    let handle = tokio::spawn(async move {
                        run_line(ctx2, conn, text, i).await;
                        *done2.lock().unwrap() = true;
                    });
                    let is_async = st["async"].as_bool().unwrap_or(false);
                    if is_async {
                        pending.insert(i, Pending { handle, done });
                        barrier().await;
                    } else {
                        let budget = st["timeout_s"].as_u64().unwrap_or(30);
                        let mut handle = handle;
                        match tokio::time::timeout(Duration::from_secs(budget), &mut handle).await {
                            Ok(Ok(())) => {}
                            Ok(Err(e)) => {
                                log(json!({"t":"resp","seq":seq(),"step":i,"stage":"panic","body":format!("{e}")}));
                            }
                            Err(_) => {
                                log(json!({"t":"stuck","seq":seq(),"step":i,"parked":parked_count()}));
                                pending.insert(i, Pending { handle, done });
                            }
                        }
                        barrier().await;
                    }
                }
                "await" => {
                    let target = st["step"].as_u64().unwrap_or(0) as usize;
                    if let Some(p) = pending.remove(&target) {
                        let budget = st["timeout_s"].as_u64().unwrap_or(30);
                        let mut handle = p.handle;
                        match tokio::time::timeout(Duration::from_secs(budget), &mut handle).await {
                            Ok(Ok(())) => {}
                            Ok(Err(e)) => {
                                log(json!({"t":"resp","seq":seq(),"step":target,"stage":"panic","body":format!("{e}")}));
                            }
                            Err(_) => {
                                log(json!({"t":"stuck","seq":seq(),"step":target,"parked":parked_count()}));
                                pending.insert(target, Pending { handle, done: p.done });
                            }
                        }
                    }
                    barrier().await;
                }
                "arm" => {
                    let id = st["id"].as_str().unwrap_or("");
                    let mut stt = CTL.get().unwrap().st.lock().unwrap();
                    for r in stt.rules.iter_mut() {
                        if r.id == id {
                            r.armed = true;
                            r.seen = 0;
                        }
                    }
                    drop(stt);
                    log(json!({"t":"armed","seq":seq(),"step":i,"id":id}));
                }
                "release" => {
                    let id = st["id"].as_str().unwrap_or("*");
                    let n = release(id);
                    log(json!({"t":"released","seq":seq(),"step":i,"id":id,"n":n}));
                    barrier().await;
                }
                "advance" => {
                    let ms = st["ms"].as_u64().unwrap_or(0);
                    if st["with_wall"].as_bool().unwrap_or(true) {
                        seams::WALL_NS.fetch_add(ms as i64 * 1_000_000, Ordering::SeqCst);
                    }
                    tokio::time::sleep(Duration::from_millis(ms)).await;
                    // let whatever the timers started run to quiescence
                    for _ in 0..st["settle"].as_u64().unwrap_or(3) {
                        barrier().await;
                    }
                    log(json!({"t":"advanced","seq":seq(),"step":i,"ms":ms,"io":seams::IO_COUNT.load(Ordering::SeqCst)}));
                }
                "barrier" => {
                    barrier().await;
                }
                "fs_snapshot" => {
                    let snap = fs_snapshot(&root);
                    log(json!({"t":"fs","seq":seq(),"step":i,"files":snap}));
                }
                "segment_ids" => {
                    // observation only: the live segment list as directory listing is in fs_snapshot;
                    // nothing to do here (kept for plan compatibility)
                }
                "wal_archive_recover" => {
                    let shard = st["shard"].as_u64().unwrap_or(0) as usize;
                    let dir = match st["dir_rel"].as_str() {
                        Some(rel) => std::path::PathBuf::from(format!("{}/{}", root, rel)),
                        None => std::path::PathBuf::from(st["dir"].as_str().unwrap_or("")),
                    };
                    let rec = snel_db::engine::core::wal::wal_archive_recovery::WalArchiveRecovery::new(shard, dir);
                    let mut entries = Vec::new();
                    let mut errs = Vec::new();
                    match rec.list_archives() {
                        Ok(list) => {
                            for p in list {
                                match rec.recover_from_archive(&p) {
                                    Ok(es) => {
                                        for e in es {
                                            entries.push(serde_json::to_value(&e).unwrap_or(Value::Null));
                                        }
                                    }
                                    Err(e) => errs.push(format!("{}: {}", p.display(), e)),
                                }
                            }
                        }
                        Err(e) => errs.push(format!("list: {}", e)),
                    }
                    log(json!({"t":"archive","seq":seq(),"step":i,"entries":entries,"errors":errs}));
                }
                other => {
                    log(json!({"t":"harness-error","msg":format!("unknown op {other}")}));
                }
            }
            let _ = &pending.get(&i).map(|p| *p.done.lock().unwrap());
        }

        // end of lifetime
        let how = end["how"].as_str().unwrap_or(if end.is_string() { end.as_str().unwrap() } else { "kill" }).to_string();
        // forced release of anything still parked (deadlock rule), except for kill
        if how != "kill" {
            let n = release("*");
            if n > 0 {
                log(json!({"t":"forced-release","n":n}));
            }
            for _ in 0..3 {
                barrier().await;
            }
            // give outstanding client commands a chance to complete
            for (step, p) in pending.drain() {
                let mut handle = p.handle;
                if tokio::time::timeout(Duration::from_secs(30), &mut handle).await.is_err() {
                    log(json!({"t":"stuck","seq":seq(),"step":step,"final":true}));
                }
            }
        }
        match how.as_str() {
            "shutdown" => {
                let errs = ctx.shard_manager.flush_all(Arc::clone(&ctx.registry)).await;
                let errs2 = ctx.shard_manager.shutdown_all().await;
                barrier().await;
                barrier().await;
                log(json!({"t":"end","how":"shutdown","flush_errors":format!("{:?}",errs),"shutdown_errors":format!("{:?}",errs2),
                           "io":seams::IO_COUNT.load(Ordering::SeqCst),"sim_ms":t0.elapsed().as_millis() as u64,
                           "clock_reads":seams::CLOCK_READS.load(Ordering::Relaxed),
                           "getrandom_calls":seams::GETRANDOM_CALLS.load(Ordering::Relaxed),
                           "park_waits":seams::PARK_WAITS.load(Ordering::Relaxed),"statx_patched":seams::STATX_PATCHED.load(Ordering::Relaxed),"boundary_waits":seams::BOUNDARY_WAITS.load(Ordering::Relaxed),"park_timeouts":seams::PARK_TIMEOUTS.load(Ordering::Relaxed)}));
                seams::die(0);
            }
            "stop" => {
                // shutdown_all without the final flush (what a supervisor's SIGTERM handler that only
                // stops the shards would do); kept for experiments
                let errs2 = ctx.shard_manager.shutdown_all().await;
                barrier().await;
                log(json!({"t":"end","how":"stop","shutdown_errors":format!("{:?}",errs2),"io":seams::IO_COUNT.load(Ordering::SeqCst)}));
                seams::die(0);
            }
            _ => {
                let arrivals = CTL.get().unwrap().st.lock().unwrap().arrivals.clone();
                log(json!({"t":"end","how":"kill","io":seams::IO_COUNT.load(Ordering::SeqCst),
                           "sim_ms":t0.elapsed().as_millis() as u64,
                           "clock_reads":seams::CLOCK_READS.load(Ordering::Relaxed),
                           "getrandom_calls":seams::GETRANDOM_CALLS.load(Ordering::Relaxed),
                           "gate_arrivals":arrivals}));
                seams::die(137);
            }
        }
    });
}
